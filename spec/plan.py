"""Which units go into which generated file (group), for which instantiations, for which property."""

def G(name, prelude, items):
    return dict(name=name, prelude=prelude, items=items)

INT_METHODS = ["int.mask", "int.cadd", "int.csub", "int.wmul", "int.leading_zeros", "int.leading_ones",
               "int.trailing_zeros", "int.trailing_ones"]

def int_impl(mode_of):
    """impl Constants + impl Integer for {I}; mode_of(unit) -> 'verify' | 'stub'"""
    return [("decl", "int.constants")] + [(mode_of(u), u) for u in INT_METHODS]

BASE_DECLS = [("decl", "decl.Bit"), ("decl", "decl.Bvf"), ("decl", "decl.ConvertionError"), ("decl", "decl.Endianness")]

GROUPS = {}

GROUPS["int_prims"] = G("int_prims", ["base.rs", "word.rs", "word_std.rs", "word_lz_vstd.rs"],
    int_impl(lambda u: "verify"))

# word types per tier
WORDS_QUICK = ["u64", "u8"]
WORDS_ALL = ["u8", "u16", "u32", "u64", "u128", "usize"]
