"""Which units go into which generated file (group), for which instantiations, for which property."""

def G(name, prelude, items):
    return dict(name=name, prelude=prelude, items=items)

INT_METHODS = ["int.mask", "int.cadd", "int.csub", "int.wmul", "int.leading_zeros", "int.leading_ones",
               "int.trailing_zeros", "int.trailing_ones"]

def int_impl(mode_of):
    """impl Constants + impl Integer for {I}; mode_of(unit) -> 'verify' | 'stub'"""
    return [("decl", "int.constants")] + [(mode_of(u), u) for u in INT_METHODS]

BASE_DECLS = [("decl", "decl.Bit"), ("decl", "decl.Bvf"), ("decl", "decl.ConvertionError"), ("decl", "decl.Endianness")]

GROUPS = {}

GROUPS["int_prims"] = G("int_prims", ["base.rs", "word.rs", "word_std.rs", "word_lz_vstd.rs"],
    int_impl(lambda u: "verify"))

# word types per tier
WORDS_QUICK = ["u64", "u8"]
WORDS_ALL = ["u8", "u16", "u32", "u64", "u128", "usize"]

WORD_PRELUDE = ["base.rs", "common.rs", "word.rs", "word_std.rs", "word_lz_vstd.rs"]

def stub_int():
    return int_impl(lambda u: "stub")

BIT_CONV = [("verify", "bit.to_int"), ("verify", "bit.from_int")]
BIT_CONV_STUB = [("stub", "bit.to_int"), ("stub", "bit.from_int")]

BVF_CORE = ["bvf.new", "bvf.into_inner", "bvf.capacity", "bvf.cfbl", "bvf.mod2n", "bvf.with_capacity", "bvf.zeros", "bvf.ones",
            "bvf.len", "bvf.get", "bvf.set", "bvf.push", "bvf.pop", "bvf.resize"]

GROUPS["bvf_core"] = G("bvf_core", WORD_PRELUDE + ["bvf.rs"],
    BASE_DECLS + stub_int() + BIT_CONV + [("decl", "bvf.consts")] + [("verify", u) for u in BVF_CORE])

def stub(units): return [("stub", u) for u in units]
def verify(units): return [("verify", u) for u in units]

BVF_PRELUDE = WORD_PRELUDE + ["conv_std.rs", "bvf.rs"]
BVF_BASE = BASE_DECLS + stub_int() + BIT_CONV_STUB + [("decl", "bvf.consts")]

GROUPS["bvf_shift"] = G("bvf_shift", BVF_PRELUDE,
    BVF_BASE + stub(BVF_CORE) + verify(["bvf.shl_assign", "bvf.shr_assign"]))

GROUPS["bvf_rot"] = G("bvf_rot", BVF_PRELUDE + ["rot.rs"],
    BVF_BASE + stub(BVF_CORE) + verify(["bvf.rotl", "bvf.rotr"]))

GROUPS["bvf_misc"] = G("bvf_misc", BVF_PRELUDE,
    BVF_BASE + stub(BVF_CORE) + verify(["bvf.not", "bvf.not_ref", "bvf.shl_in", "bvf.shr_in"]))

BVF_COUNT = ["bvf.leading_zeros", "bvf.leading_ones", "bvf.trailing_zeros", "bvf.trailing_ones", "bvf.is_zero"]
GROUPS["bvf_count"] = G("bvf_count", BVF_PRELUDE,
    BVF_BASE + stub(BVF_CORE) + verify(BVF_COUNT))

GROUPS["bvf_slice"] = G("bvf_slice", BVF_PRELUDE + ["slice_lemmas.rs"],
    BVF_BASE + stub(BVF_CORE) + verify(["bvf.copy_range"]))

BVF_DEFAULTS = ["bvf.is_empty", "bvf.repeat", "bvf.first", "bvf.last", "bvf.split_off", "bvf.split", "bvf.truncate",
                "bvf.sign_extend", "bvf.significant_bits"]
GROUPS["bvf_defaults"] = G("bvf_defaults", BVF_PRELUDE,
    BVF_BASE + stub(BVF_CORE + BVF_COUNT + ["bvf.copy_range"]) + verify(BVF_DEFAULTS))

BVD_PRELUDE = WORD_PRELUDE + ["conv_std.rs", "bvd.rs"]
BVD_BASE = [("decl", "decl.Bit"), ("decl", "decl.Bvd"), ("decl", "decl.ConvertionError"), ("decl", "decl.Endianness")] + stub_int() + BIT_CONV_STUB + [("decl", "bvd.consts")]
BVD_CORE = ["bvd.new", "bvd.into_inner", "bvd.cfbyl", "bvd.cfbl", "bvd.capacity", "bvd.len", "bvd.with_capacity", "bvd.zeros", "bvd.get", "bvd.set", "bvd.reserve", "bvd.shrink_to_fit", "bvd.push", "bvd.pop"]
GROUPS["bvd_core"] = G("bvd_core", BVD_PRELUDE, BVD_BASE + verify(BVD_CORE))
GROUPS["bvd_core"]["features"] = "#![feature(allocator_api)]"

GROUPS["bvd_shift"] = G("bvd_shift", BVD_PRELUDE, BVD_BASE + stub(BVD_CORE) + verify(["bvd.shl_assign", "bvd.shr_assign"]))
GROUPS["bvd_shift"]["features"] = "#![feature(allocator_api)]"

GROUPS["bvd_rot"] = G("bvd_rot", BVD_PRELUDE + ["rot.rs"], BVD_BASE + stub(BVD_CORE) + verify(["bvd.rotl", "bvd.rotr"]))
GROUPS["bvd_rot"]["features"] = "#![feature(allocator_api)]"

BVD_COUNT = ["bvd.leading_zeros", "bvd.leading_ones", "bvd.trailing_zeros", "bvd.trailing_ones"]
GROUPS["bvd_count"] = G("bvd_count", BVD_PRELUDE, BVD_BASE + stub(BVD_CORE) + verify(BVD_COUNT))
GROUPS["bvd_count"]["features"] = "#![feature(allocator_api)]"

GROUPS["bvd_misc"] = G("bvd_misc", BVD_PRELUDE, BVD_BASE + stub(BVD_CORE) + verify(["bvd.shl_in", "bvd.shr_in", "bvd.not", "bvd.not_ref"]))
GROUPS["bvd_misc"]["features"] = "#![feature(allocator_api)]"

GROUPS["bvd_edit"] = G("bvd_edit", BVD_PRELUDE, BVD_BASE + stub(BVD_CORE) + verify(["bvd.resize", "bvd.ones", "bvd.is_zero"]))
GROUPS["bvd_edit"]["features"] = "#![feature(allocator_api)]"

GROUPS["bvd_slice"] = G("bvd_slice", BVD_PRELUDE + ["slice_lemmas.rs"], BVD_BASE + stub(BVD_CORE) + verify(["bvd.copy_range"]))
GROUPS["bvd_slice"]["features"] = "#![feature(allocator_api)]"

BVD_DEFAULTS = [u.replace("bvf.", "bvd.") for u in BVF_DEFAULTS]
BVD_EDIT = ["bvd.resize", "bvd.ones", "bvd.is_zero"]
GROUPS["bvd_defaults"] = G("bvd_defaults", BVD_PRELUDE, BVD_BASE + stub(BVD_CORE + BVD_COUNT + BVD_EDIT + ["bvd.copy_range"]) + verify(BVD_DEFAULTS))
GROUPS["bvd_defaults"]["features"] = "#![feature(allocator_api)]"

def word_j():
    return ("word.rs", {"I": "{J}", "X": "_{J}"})

def int_impl_j(ctx):
    """stub impl Constants/Integer for the secondary word type J (only if it differs from I)"""
    if ctx["J"] == ctx["I"]:
        return []
    over = {"I": "{J}", "X": "_{J}"}
    return [("decl", "int.constants", over)] + [("stub", u, over) for u in INT_METHODS]

def iarray_prelude(ctx):
    """word vocabulary for the chunk type J under suffix _J, chunk spec for (container word I, chunk J)"""
    return ["iarray.rs", word_j(), ("chunk.rs", {"Y": "_{J}"})]

YJ = {"Y": "_{J}"}
def slice_ia(mode="stub", over=YJ):
    return [(mode, "slice.int_len", over), (mode, "slice.get_int", over), (mode, "slice.set_int", over)]
def with_ctx(entries, over):
    return [(e[0], e[1], over) for e in entries]

GROUPS["bvf_iarray"] = dict(name="bvf_iarray", prelude=lambda ctx: BVF_PRELUDE + iarray_prelude(ctx),
    items=lambda ctx: BVF_BASE + int_impl_j(ctx) + stub(BVF_CORE) + slice_ia() + with_ctx(verify(["bvf.int_len", "bvf.get_int"]), YJ))

GROUPS["bvf_set_int"] = dict(name="bvf_set_int", prelude=lambda ctx: BVF_PRELUDE + iarray_prelude(ctx),
    items=lambda ctx: BVF_BASE + int_impl_j(ctx) + stub(BVF_CORE) + slice_ia() + with_ctx(verify(["bvf.set_int"]), YJ))
GROUPS["bvd_set_int"] = dict(name="bvd_set_int", features="#![feature(allocator_api)]", prelude=lambda ctx: BVD_PRELUDE + iarray_prelude_d(ctx),
    items=lambda ctx: BVD_BASE + int_impl_j(ctx) + stub(BVD_CORE) + slice_ia("stub", yj_d(ctx)) + with_ctx(verify(["bvd.set_int"]), yj_d(ctx)))
GROUPS["bvf_from_slice"] = dict(name="bvf_from_slice", prelude=lambda ctx: BVF_PRELUDE + iarray_prelude(ctx),
    items=lambda ctx: BVF_BASE + int_impl_j(ctx) + stub(BVF_CORE) + slice_ia() + with_ctx([("stub", "bvf.set_int")], YJ) + with_ctx(verify(["bvf.try_from_slice"]), YJ))
GROUPS["bvd_from_slice"] = dict(name="bvd_from_slice", features="#![feature(allocator_api)]", prelude=lambda ctx: BVD_PRELUDE + iarray_prelude_d(ctx),
    items=lambda ctx: BVD_BASE + int_impl_j(ctx) + stub(BVD_CORE) + slice_ia("stub", yj_d(ctx)) + with_ctx([("stub", "bvd.set_int")], yj_d(ctx)) + with_ctx(verify(["bvd.from_slice"]), yj_d(ctx)))
def iarray_prelude_d(ctx):
    return ["iarray.rs"] + ([word_j()] if ctx["J"] != "u64" else []) + [("chunk.rs", {"Y": "_{J}" if ctx["J"] != "u64" else ""})]
def yj_d(ctx):
    return {"Y": "_{J}" if ctx["J"] != "u64" else ""}
GROUPS["bvd_iarray"] = dict(name="bvd_iarray", features="#![feature(allocator_api)]", prelude=lambda ctx: BVD_PRELUDE + iarray_prelude_d(ctx),
    items=lambda ctx: BVD_BASE + int_impl_j(ctx) + stub(BVD_CORE) + slice_ia("stub", yj_d(ctx)) + with_ctx(verify(["bvd.int_len", "bvd.get_int"]), yj_d(ctx)))

from units import INT_BITS

# the slice-level re-chunking (impl IArray / IArrayMut for [I]) for I narrower than J: the safe word-combining branch (R25 drops the dead unsafe arm)
def slice_narrow_prelude(ctx):
    return WORD_PRELUDE + ["iarray.rs", word_j(), ("chunk.rs", {"Y": "_{J}"}), ("int_cast.rs", {"I": "{J}", "J": "{I}", "X": "_{J}", "Y": ""}), ("int_cast.rs", {"Y": "_{J}"}), ("slice_narrow.rs", {"Y": "_{J}"})]
GROUPS["slice_iarray"] = dict(name="slice_iarray", prelude=slice_narrow_prelude,
    items=lambda ctx: BASE_DECLS + stub_int() + int_impl_j(ctx) + [("stub", "cast.from", {"A": "{I}", "B": "{J}"}), ("stub", "cast.to", {"A": "{I}", "B": "{J}"})]
        + with_ctx([("verify", "slice.int_len_v"), ("verify", "slice.get_int_narrow"), ("verify", "slice.set_int_narrow")], YJ))
# int_len of a slice (no unsafe code: size_of_val arithmetic) for every pair of word types
GROUPS["slice_len"] = dict(name="slice_len", prelude=lambda ctx: WORD_PRELUDE + ["iarray.rs"] + ([word_j()] if ctx["J"] != ctx["I"] else []),
    items=lambda ctx: BASE_DECLS + stub_int() + int_impl_j(ctx) + with_ctx([("verify", "slice.int_len_v")], YJ))
# impl StaticCast<B> for A (macro impl_staticcast!): one file per (A, B) (Verus cannot name the return value of `cast_to` when several StaticCast<_> impls of one type coexist)
CAST_TYPES = ["u8", "u16", "u32", "u64", "u128", "usize"]
GROUPS["casts"] = dict(name="casts", prelude=lambda ctx: ["base.rs"],
    items=lambda ctx: verify(["cast.from", "cast.to"]))
def slice_jobs(pairs):
    """slice-level re-chunking under proof: int_len for every pair, get_int/set_int where the slice word is narrower than the chunk"""
    return [("slice_len", {"I": i, "J": j}) for (i, j) in pairs] + [("slice_iarray", {"I": i, "J": j, "R": str(INT_BITS[j] // INT_BITS[i])}) for (i, j) in pairs if INT_BITS[i] < INT_BITS[j]]
def cast_jobs(types):
    return [("casts", {"A": a, "B": b}) for a in types for b in types]

def pair(i, j, **kw):
    """job ctx for an operation on Bvf<I,..> (self) with an operand over word type J"""
    c = {"I": i, "J": j, "XJ": "" if i == j else "_" + j, "XD": "" if i == "u64" else "_u64"}
    c.update(kw)
    return c

BITOPS = {
    "and": dict(OPB="BitAnd", OPBM="bitand", OPT="BitAndAssign", OPM="bitand_assign", BOP="&&", WOP="&", WL="lemma_wbit_and"),
    "or": dict(OPB="BitOr", OPBM="bitor", OPT="BitOrAssign", OPM="bitor_assign", BOP="||", WOP="|", WL="lemma_wbit_or"),
    "xor": dict(OPB="BitXor", OPBM="bitxor", OPT="BitXorAssign", OPM="bitxor_assign", BOP="!=", WOP="^", WL="lemma_wbit_xor"),
}

RHS_J = {"I": "{J}", "J": "{I}", "X": "{XJ}", "Y": ""}     # container word J, chunk type I

def rhs_bvf_prelude(ctx):
    """vocabulary for an operand Bvf<J,N2>: word-level names under suffix XJ, wf/bits of Bvf<J,_>, chunk spec (J words -> I chunks)"""
    p = ["iarray.rs"]
    if ctx["J"] != ctx["I"]:
        p += [("word.rs", {"I": "{J}", "X": "_{J}"})]
        if "SGN" in ctx:
            p += [("value_word.rs", {"I": "{J}", "X": "_{J}"})]
        p += [("bvf.rs", {"I": "{J}", "X": "_{J}"})]
        if "SGN" in ctx:
            p += [("bvf_val.rs", {"I": "{J}", "X": "_{J}"})]
    p += [("chunk.rs", RHS_J)]
    if "SGN" in ctx:
        p += [("chunk_value.rs", RHS_J)]
    same = INT_BITS[ctx["I"]] == INT_BITS[ctx["J"]]
    p += ["cast_same.rs" if same else "cast_same_dummy.rs"]
    return p

def rhs_bvf_items(ctx):
    """stubs an operation needs to read a Bvf<J,N2> operand in chunks of I"""
    it = int_impl_j(ctx)
    it += [("stub", "cast.from", {"A": "{J}", "B": "{I}"}), ("stub", "cast.to", {"A": "{J}", "B": "{I}"})]
    it += slice_ia("stub", RHS_J)
    it += [("stub", "bvf.int_len", RHS_J), ("stub", "bvf.get_int", RHS_J)]
    return it

GROUPS["bvf_bitops"] = dict(name="bvf_bitops", prelude=lambda ctx: BVF_PRELUDE + rhs_bvf_prelude(ctx),
    items=lambda ctx: BVF_BASE + rhs_bvf_items(ctx) + stub(BVF_CORE) + verify(["bvf.binop_bvf"]))

ARITH = {
    "add": dict(OPB="Add", OPBM="add", OPT="AddAssign", OPM="add_assign", CM="cadd", SGN="+", STEP="lemma_addc_step", FIN="lemma_add_final"),
    "sub": dict(OPB="Sub", OPBM="sub", OPT="SubAssign", OPM="sub_assign", CM="csub", SGN="-", STEP="lemma_borrow_step", FIN="lemma_sub_final"),
}
VALUE_PRELUDE = ["value.rs", "value_word.rs"]
def rhs_value_prelude(ctx):
    return [("value_word.rs", {"I": "{J}", "X": "_{J}"})] if ctx["J"] != ctx["I"] else []

GROUPS["bvf_arith"] = dict(name="bvf_arith",
    prelude=lambda ctx: WORD_PRELUDE + ["conv_std.rs"] + VALUE_PRELUDE + ["bvf.rs", "bvf_val.rs"] + rhs_bvf_prelude(ctx) + ["bvf_arith.rs"],
    items=lambda ctx: BVF_BASE + rhs_bvf_items(ctx) + stub(BVF_CORE) + verify(["bvf.addsub_bvf"]))

GROUPS["bvf_conv_bvf"] = dict(name="bvf_conv_bvf", prelude=lambda ctx: BVF_PRELUDE + rhs_bvf_prelude(ctx),
    items=lambda ctx: BVF_BASE + rhs_bvf_items(ctx) + stub(BVF_CORE) + verify(["bvf.try_from_bvf"]))

def src_bvf_prelude(ctx):
    """vocabulary of a Bvf<J,_> SOURCE/operand inside a Bvd (u64) file"""
    same = ["bvf.rs"] + (["bvf_val.rs"] if "SGN" in ctx else [])
    return (same if ctx["J"] == "u64" else []) + rhs_bvf_prelude(ctx)
def src_bvf_items(ctx):
    return [("decl", "decl.Bvf")] + rhs_bvf_items(ctx) + [("stub", "bvf.len", {"I": "{J}", "X": "{XJ}"})]
GROUPS["bvd_bitops_bvf"] = dict(name="bvd_bitops_bvf", features="#![feature(allocator_api)]",
    prelude=lambda ctx: BVD_PRELUDE + src_bvf_prelude(ctx),
    items=lambda ctx: BVD_BASE + src_bvf_items(ctx) + stub(BVD_CORE) + verify(["bvd.binop_bvf"]))
GROUPS["bvd_arith_bvf"] = dict(name="bvd_arith_bvf", features="#![feature(allocator_api)]",
    prelude=lambda ctx: BVD_VAL_PRELUDE + src_bvf_prelude(ctx) + ["bvd_arith.rs"],
    items=lambda ctx: BVD_BASE + src_bvf_items(ctx) + stub(BVD_CORE) + verify(["bvd.addsub_bvf"]))
GROUPS["bvd_conv_bvf"] = dict(name="bvd_conv_bvf", features="#![feature(allocator_api)]",
    prelude=lambda ctx: BVD_PRELUDE + src_bvf_prelude(ctx),
    items=lambda ctx: BVD_BASE + [("decl", "decl.Bvf")] + rhs_bvf_items(ctx) + [("stub", "bvf.len", {"I": "{J}", "X": "{XJ}"})] + stub(BVD_CORE) + verify(["bvd.from_bvf"]))

def xd(ctx):
    """suffix of the u64 word vocabulary used by a Bvd operand inside a Bvf<I,_> file"""
    return "" if ctx["I"] == "u64" else "_u64"

RHS_D = {"I": "u64", "J": "{I}", "X": "{XD}", "Y": ""}      # container words u64 (Bvd), chunk type I

def rhs_bvd_prelude(ctx):
    p = ["iarray.rs"]
    if ctx["I"] != "u64":
        p += [("word.rs", {"I": "u64", "X": "_u64"})]
        if "SGN" in ctx:
            p += [("value_word.rs", {"I": "u64", "X": "_u64"})]
    p += [("bvd.rs", {"X": "{XD}"}), ("chunk.rs", RHS_D)]
    if "SGN" in ctx:
        p += [("chunk_value.rs", RHS_D)]
    return p

def rhs_bvd_items(ctx):
    it = [("decl", "decl.Bvd")]
    if ctx["I"] != "u64":
        over = {"I": "u64", "X": "_u64"}
        it += [("decl", "int.constants", over)] + [("stub", u, over) for u in INT_METHODS]
    it += slice_ia("stub", RHS_D) + [("stub", "bvd.int_len", RHS_D), ("stub", "bvd.get_int", RHS_D)]
    return it

GROUPS["bvf_bitops_bvd"] = dict(name="bvf_bitops_bvd", features="#![feature(allocator_api)]",
    prelude=lambda ctx: BVF_PRELUDE + rhs_bvd_prelude(ctx),
    items=lambda ctx: BVF_BASE + rhs_bvd_items(ctx) + stub(BVF_CORE) + verify(["bvf.binop_bvd"]))

def rhs_bvd_val_prelude(ctx):
    return rhs_bvd_prelude(ctx) + [("bvd_val.rs", {"X": "{XD}"})]
GROUPS["bvf_arith_bvd"] = dict(name="bvf_arith_bvd", features="#![feature(allocator_api)]",
    prelude=lambda ctx: WORD_PRELUDE + ["conv_std.rs"] + VALUE_PRELUDE + ["bvf.rs", "bvf_val.rs"] + rhs_bvd_val_prelude(ctx) + ["bvf_arith_v.rs"],
    items=lambda ctx: BVF_BASE + rhs_bvd_items(ctx) + stub(BVF_CORE) + verify(["bvf.addsub_bvd"]))

GROUPS["bvf_conv_bvd"] = dict(name="bvf_conv_bvd", features="#![feature(allocator_api)]",
    prelude=lambda ctx: BVF_PRELUDE + rhs_bvd_prelude(ctx),
    items=lambda ctx: BVF_BASE + rhs_bvd_items(ctx) + [("stub", "bvd.len", {"X": "{XD}"})] + stub(BVF_CORE) + verify(["bvf.try_from_bvd", "bvf.try_from_bvd_owned"]))

GROUPS["bvd_bitops"] = G("bvd_bitops", BVD_PRELUDE, BVD_BASE + stub(BVD_CORE) + verify(["bvd.binop_bvd"]))
GROUPS["bvd_bitops"]["features"] = "#![feature(allocator_api)]"

ARITH_D = {
    "add": dict(ARITH["add"], OVF="overflowing_add"),
    "sub": dict(ARITH["sub"], OVF="overflowing_sub"),
}
BVD_VAL_PRELUDE = WORD_PRELUDE + ["conv_std.rs"] + VALUE_PRELUDE + ["bvd.rs", "bvd_val.rs"]
GROUPS["bvd_arith"] = G("bvd_arith", BVD_VAL_PRELUDE + ["bvd_arith.rs"], BVD_BASE + stub(BVD_CORE) + verify(["bvd.addsub_bvd"]))
GROUPS["bvd_arith"]["features"] = "#![feature(allocator_api)]"

# ---- Bv (auto.rs): inline Bvf<u64,2> or heap Bvd; every callee is a stub with its verified contract (ctx: I=u64)
BV_PRELUDE = WORD_PRELUDE + ["conv_std.rs", "bvf.rs", "bvd.rs", "iarray.rs", ("chunk.rs", {"J": "u64", "Y": ""}), "bv.rs"]
BV_BASE = (BASE_DECLS + [("decl", "decl.Bvd"), ("decl", "decl.Bv128"), ("decl", "decl.Bvp"), ("decl", "decl.Bv")] + stub_int() + BIT_CONV_STUB +
           [("decl", "bvf.consts"), ("decl", "bvd.consts")] + stub(BVF_CORE) + stub(BVD_CORE) +
           [("stub", "bvd.from_bvf", {"J": "u64", "XJ": ""}), ("stub", "bvf.try_from_bvd", {"XD": ""})])
BV_CORE = ["bv.reserve", "bv.shrink_to_fit", "bv.with_capacity", "bv.zeros", "bv.ones", "bv.capacity", "bv.len", "bv.get", "bv.set", "bv.push", "bv.pop", "bv.resize"]
GROUPS["bv_core"] = G("bv_core", BV_PRELUDE, BV_BASE + stub(["bvd.resize", "bvd.ones"]) + verify(BV_CORE))
GROUPS["bv_core"]["features"] = "#![feature(allocator_api)]"

BV_MORE = ["bv.copy_range", "bv.shl_in", "bv.shr_in", "bv.rotl", "bv.rotr", "bv.leading_zeros", "bv.leading_ones", "bv.trailing_zeros", "bv.trailing_ones", "bv.is_zero", "bv.not"]
BV_CALLEES = (["bvf.copy_range", "bvf.shl_in", "bvf.shr_in", "bvf.rotl", "bvf.rotr", "bvf.not"] + BVF_COUNT +
              ["bvd.copy_range", "bvd.shl_in", "bvd.shr_in", "bvd.rotl", "bvd.rotr", "bvd.not", "bvd.is_zero"] + BVD_COUNT)
GROUPS["bv_more"] = G("bv_more", BV_PRELUDE + ["rot.rs"], BV_BASE + [("stub", "bvf.try_from_bvd_owned", {"XD": ""})] + stub(BV_CALLEES) + verify(BV_MORE))
GROUPS["bv_more"]["features"] = "#![feature(allocator_api)]"
GROUPS["bv_shift"] = G("bv_shift", BV_PRELUDE, BV_BASE + stub(["bvf.shl_assign", "bvf.shr_assign", "bvd.shl_assign", "bvd.shr_assign"]) + verify(["bv.shl_assign", "bv.shr_assign"]))
GROUPS["bv_shift"]["features"] = "#![feature(allocator_api)]"

# Bv op= {&Bvf<J,N>, &Bvd, &Bv}: callees are the verified Bvf<u64,_>/Bvd compound assignments (stubs)
def bv_ops_prelude(ctx):
    val = "SGN" in ctx
    p = WORD_PRELUDE + ["conv_std.rs"] + (VALUE_PRELUDE if val else []) + ["bvf.rs"] + (["bvf_val.rs"] if val else []) + ["bvd.rs"] + (["bvd_val.rs"] if val else [])
    p += rhs_bvf_prelude(ctx)                      # operand Bvf<J,_> (only adds vocabulary when J != u64)
    p += ["bv.rs"] + (["bv_val.rs"] if val else [])
    return p
def bv_ops_items(ctx):
    val = "SGN" in ctx
    it = BASE_DECLS + [("decl", "decl.Bvd"), ("decl", "decl.Bv128"), ("decl", "decl.Bvp"), ("decl", "decl.Bv")] + stub_int() + BIT_CONV_STUB + [("decl", "bvf.consts"), ("decl", "bvd.consts")]
    it += int_impl_j(ctx)
    if val:
        it += stub(["bvf.addsub_bvf", "bvd.addsub_bvf", "bvf.addsub_bvd", "bvd.addsub_bvd"]) + verify(["bv.addsub_bvf", "bv.addsub_bvd"])
        if ctx["J"] == "u64":
            it += verify(["bv.addsub_bv"])
    else:
        it += stub(["bvf.binop_bvf", "bvd.binop_bvf", "bvf.binop_bvd", "bvd.binop_bvd"]) + verify(["bv.binop_bvf", "bv.binop_bvd"])
        if ctx["J"] == "u64":
            it += verify(["bv.binop_bv"])
    return it
GROUPS["bv_ops"] = dict(name="bv_ops", features="#![feature(allocator_api)]", prelude=bv_ops_prelude, items=bv_ops_items)

GROUPS["bvd_cmp"] = G("bvd_cmp", BVD_VAL_PRELUDE + ["cmp_words.rs", "bvd_cmp.rs"], BVD_BASE + stub(BVD_CORE) + verify(["bvd.eq_bvd", "bvd.cmp_bvd"]))
GROUPS["bvd_cmp"]["features"] = "#![feature(allocator_api)]"

GROUPS["bvd_cmp_bvf"] = dict(name="bvd_cmp_bvf", features="#![feature(allocator_api)]",
    prelude=lambda ctx: BVD_VAL_PRELUDE + src_bvf_prelude(dict(ctx, SGN="+")) + ["cmp_words.rs", "bvd_cmp.rs"],
    items=lambda ctx: BVD_BASE + src_bvf_items(ctx) + stub(BVD_CORE) + verify(["bvd.eq_bvf", "bvd.partial_cmp_bvf"]))

# forwarding comparisons. Stub ctx for Bvd's view of a Bvf<I,_> operand: J = I
def bvf_cmp_fwd_prelude(ctx):
    return WORD_PRELUDE + ["conv_std.rs"] + VALUE_PRELUDE + ["bvf.rs", "bvf_val.rs"] + rhs_bvd_val_prelude(dict(ctx, SGN="+")) + ["cmp_std.rs"]
def bvf_cmp_fwd_items(ctx):
    it = BVF_BASE + [("decl", "decl.Bvd")] + stub(BVF_CORE)
    it += [("stub", "bvf.partial_cmp_bvf", {"J": "{I}", "XJ": ""})]
    it += [("stub", "bvd.eq_bvf", {"I": "u64", "J": "{I}", "X": "{XD}", "XJ": ""}), ("stub", "bvd.partial_cmp_bvf", {"I": "u64", "J": "{I}", "X": "{XD}", "XJ": ""})]
    return it + verify(["bvf.cmp", "bvf.eq_bvd", "bvf.partial_cmp_bvd"])
GROUPS["bvf_cmp_fwd"] = dict(name="bvf_cmp_fwd", features="#![feature(allocator_api)]", prelude=bvf_cmp_fwd_prelude, items=bvf_cmp_fwd_items)
GROUPS["bvd_cmp_fwd"] = G("bvd_cmp_fwd", BVD_VAL_PRELUDE + ["cmp_std.rs"], BVD_BASE + stub(BVD_CORE) + stub(["bvd.cmp_bvd"]) + verify(["bvd.partial_cmp_bvd"]))
GROUPS["bvd_cmp_fwd"]["features"] = "#![feature(allocator_api)]"

def bv_cmp_prelude(ctx):
    return bv_ops_prelude(dict(ctx, SGN="+")) + ["cmp_std.rs"]
def bv_cmp_items(ctx):
    it = BASE_DECLS + [("decl", "decl.Bvd"), ("decl", "decl.Bv128"), ("decl", "decl.Bvp"), ("decl", "decl.Bv")] + stub_int() + BIT_CONV_STUB + [("decl", "bvf.consts"), ("decl", "bvd.consts")]
    it += int_impl_j(ctx)
    it += [("stub", "bvf.eq_bvf"), ("stub", "bvf.partial_cmp_bvf"), ("stub", "bvd.eq_bvf"), ("stub", "bvd.partial_cmp_bvf")]
    it += [("verify", "bv.eq_bvf"), ("verify", "bv.partial_cmp_bvf")]
    it += [("verify", "bvf.eq_bv", {"I": "{J}", "X": "{XJ}"}), ("verify", "bvf.partial_cmp_bv", {"I": "{J}", "X": "{XJ}"})]
    if ctx["J"] == "u64":
        it += stub(["bvf.cmp", "bvf.eq_bvd", "bvf.partial_cmp_bvd", "bvd.eq_bvd", "bvd.cmp_bvd", "bvd.partial_cmp_bvd"])
        it += verify(["bv.eq_bv", "bv.eq_bvd", "bv.partial_cmp_bvd", "bv.cmp", "bv.partial_cmp_bv", "bvd.eq_bv", "bvd.partial_cmp_bv"])
    return it
GROUPS["bv_cmp"] = dict(name="bv_cmp", features="#![feature(allocator_api)]", prelude=bv_cmp_prelude, items=bv_cmp_items)

GROUPS["bvf_mul"] = dict(name="bvf_mul",
    prelude=lambda ctx: WORD_PRELUDE + ["conv_std.rs"] + VALUE_PRELUDE + ["value_mul.rs", "bvf.rs", "bvf_val.rs"] + rhs_bvf_prelude(dict(ctx, SGN="+")) + ["bvf_mul.rs"],
    items=lambda ctx: BVF_BASE + rhs_bvf_items(ctx) + ([("stub", "bvf.int_len", {"J": "{I}", "Y": ""}), ("stub", "slice.int_len", {"J": "{I}", "Y": ""})] if ctx["I"] != ctx["J"] else []) + stub(BVF_CORE) + verify(["bvf.mul_bvf"]))
GROUPS["bvf_mul_bvd"] = dict(name="bvf_mul_bvd", features="#![feature(allocator_api)]",
    prelude=lambda ctx: WORD_PRELUDE + ["conv_std.rs"] + VALUE_PRELUDE + ["value_mul.rs", "bvf.rs", "bvf_val.rs"] + rhs_bvd_val_prelude(dict(ctx, SGN="+")) + ["bvf_mul.rs"],
    items=lambda ctx: BVF_BASE + rhs_bvd_items(ctx) + [("stub", "bvf.int_len", {"J": "{I}", "Y": ""})] + ([("stub", "slice.int_len", {"J": "{I}", "Y": ""})] if ctx["I"] != "u64" else []) + stub(BVF_CORE) + verify(["bvf.mul_bvd"]))
GROUPS["bvd_mul"] = G("bvd_mul", BVD_VAL_PRELUDE + ["value_mul.rs", "cmp_words.rs", "bvd_cmp.rs", "bvd_mul.rs"], BVD_BASE + stub(BVD_CORE) + verify(["bvd.mul_bvd"]))
GROUPS["bvd_mul"]["features"] = "#![feature(allocator_api)]"
GROUPS["bvf_mulforms"] = dict(name="bvf_mulforms",
    prelude=lambda ctx: WORD_PRELUDE + ["conv_std.rs"] + VALUE_PRELUDE + ["bvf.rs", "bvf_val.rs"] + rhs_bvf_prelude(dict(ctx, SGN="+")),
    items=lambda ctx: BVF_BASE + rhs_bvf_items(ctx) + stub(BVF_CORE) + stub(["bvf.mul_bvf"]) + verify(MULFORMS_F))
GROUPS["bvd_mulforms"] = dict(name="bvd_mulforms", features="#![feature(allocator_api)]", prelude=lambda ctx: BVD_VAL_PRELUDE,
    items=lambda ctx: BVD_BASE + stub(BVD_CORE) + stub(["bvd.mul_bvd"]) + verify(MULFORMS_D))
GROUPS["bvd_mul_bvf"] = dict(name="bvd_mul_bvf", features="#![feature(allocator_api)]",
    prelude=lambda ctx: BVD_VAL_PRELUDE + ["value_mul.rs"] + src_bvf_prelude(dict(ctx, SGN="+")) + ["bvd_mul.rs"],
    items=lambda ctx: BVD_BASE + src_bvf_items(ctx) + [("stub", "bvd.int_len", {"J": "u64", "Y": ""})] + stub(BVD_CORE) + verify(["bvd.mul_bvf"]))
# ---- BitIterator instantiated per implementation
ITER_UNITS = ["iter.new", "iter.next", "iter.size_hint", "iter.count", "iter.last", "iter.nth", "iter.next_back", "iter.nth_back"]
ITER_BVD = {"BT": "Bvd", "HG": "<'a>"}
ITER_BV = {"BT": "Bv", "HG": "<'a>"}
def iter_bvf(i):
    return {"I": i, "BT": "Bvf<%s, N>" % i, "HG": "<'a, const N: usize>"}
GROUPS["iter_bvd"] = G("iter_bvd", BVD_PRELUDE + ["iter.rs"], BVD_BASE + [("decl", "decl.BitIterator")] + stub(BVD_CORE) + verify(ITER_UNITS))
GROUPS["iter_bvd"]["features"] = "#![feature(allocator_api)]"
GROUPS["iter_bvf"] = G("iter_bvf", BVF_PRELUDE + ["iter.rs"], BVF_BASE + [("decl", "decl.BitIterator")] + stub(BVF_CORE) + verify(ITER_UNITS))
GROUPS["iter_bv"] = G("iter_bv", BV_PRELUDE + ["iter.rs"], BV_BASE + [("decl", "decl.BitIterator")] + stub(["bv.len", "bv.get"]) + verify(ITER_UNITS))
GROUPS["iter_bv"]["features"] = "#![feature(allocator_api)]"
GROUPS["bvd_shift_ref"] = G("bvd_shift_ref", BVD_PRELUDE + ["chunk_seq.rs"], BVD_BASE + stub(BVD_CORE) + verify(["bvd.shl_ref", "bvd.shr_ref"]))
GROUPS["bvd_shift_ref"]["features"] = "#![feature(allocator_api)]"
GROUPS["bvf_hash"] = G("bvf_hash", WORD_PRELUDE + ["conv_std.rs"] + VALUE_PRELUDE + ["bvf.rs", "bvf_val.rs", "hash.rs", "bvf_hash.rs"],
    BVF_BASE + stub(BVF_CORE) + stub(["bvf.significant_bits"]) + verify(["bvf.hash"]))
GROUPS["bvd_hash"] = G("bvd_hash", BVD_VAL_PRELUDE + ["hash.rs", "bvd_hash.rs"], BVD_BASE + stub(BVD_CORE) + stub(["bvd.significant_bits"]) + verify(["bvd.hash"]))
GROUPS["bvd_hash"]["features"] = "#![feature(allocator_api)]"
BV_VAL_PRELUDE = WORD_PRELUDE + ["conv_std.rs"] + VALUE_PRELUDE + ["bvf.rs", "bvf_val.rs", "bvd.rs", "bvd_val.rs", "iarray.rs", ("chunk.rs", {"J": "u64", "Y": ""}), "bv.rs", "bv_val.rs"]
GROUPS["bv_hash"] = G("bv_hash", BV_VAL_PRELUDE + ["hash.rs", "bvf_hash.rs", "bvd_hash.rs", "bv_words.rs", "bv_hash.rs"],
    BV_BASE + [("stub", "bv.significant_bits"), ("stub", "bv.get_int", {"J": "u64", "Y": ""})] + verify(["bv.hash"]))
GROUPS["bv_hash"]["features"] = "#![feature(allocator_api)]"
GROUPS["bv_iarray"] = dict(name="bv_iarray", features="#![feature(allocator_api)]",
    prelude=lambda ctx: BV_PRELUDE + ([word_j()] if ctx["J"] != "u64" else []) + ([("chunk.rs", {"Y": "_{J}"})] if ctx["J"] != "u64" else []),
    items=lambda ctx: BV_BASE + int_impl_j(ctx) + slice_ia("stub", yj_d(ctx)) + [("stub", "bvf.int_len", yj_d(ctx)), ("stub", "bvf.get_int", yj_d(ctx)), ("stub", "bvd.int_len", yj_d(ctx)), ("stub", "bvd.get_int", yj_d(ctx))]
        + with_ctx(verify(["bv.int_len", "bv.get_int"]), yj_d(ctx)))
GROUPS["bv_defaults"] = G("bv_defaults", BV_PRELUDE, BV_BASE + stub(["bv.len", "bv.leading_zeros"]) + verify(["bv.significant_bits"]))
GROUPS["bv_defaults"]["features"] = "#![feature(allocator_api)]"
# ---- operator forms (generated units, tools/genforms.py). ctx as for the compound assignments + OPB/OPBM
def forms_kind(ctx):
    return "val" if "SGN" in ctx else "bit"
def bvd_forms_items(ctx):
    k = forms_kind(ctx)
    callee = ["bvd.addsub_bvd", "bvd.addsub_bvf"] if k == "val" else ["bvd.binop_bvd", "bvd.binop_bvf"]
    return (BVD_BASE + src_bvf_items(ctx) + stub(BVD_CORE) + stub(callee) + [("stub", "bvd.clone")] +
            verify(["bvd.form_owned_bvd_" + k, "bvd.form_ref_bvd_" + k, "bvd.form_owned_bvf_" + k, "bvd.form_ref_bvf_" + k, "bvd.form_assign_bvd_" + k]))
GROUPS["bvd_forms"] = dict(name="bvd_forms", features="#![feature(allocator_api)]",
    prelude=lambda ctx: (BVD_VAL_PRELUDE if "SGN" in ctx else BVD_PRELUDE) + src_bvf_prelude(ctx), items=bvd_forms_items)
def bvf_forms_items(ctx):
    k = forms_kind(ctx)
    callee = ["bvf.addsub_bvf"] if k == "val" else ["bvf.binop_bvf"]
    return BVF_BASE + rhs_bvf_items(ctx) + stub(BVF_CORE) + stub(callee) + verify(["bvf.form_owned_bvf_" + k, "bvf.form_ref_bvf_" + k])
GROUPS["bvf_forms"] = dict(name="bvf_forms",
    prelude=lambda ctx: WORD_PRELUDE + ["conv_std.rs"] + (VALUE_PRELUDE + ["bvf.rs", "bvf_val.rs"] if "SGN" in ctx else ["bvf.rs"]) + rhs_bvf_prelude(ctx), items=bvf_forms_items)
# ---- native integer conversions (C11). ctx: I storage word, J native integer type (u8..u64)
def int_conv_prelude(ctx):
    return (WORD_PRELUDE + ["conv_std.rs"] + VALUE_PRELUDE + ["bvf.rs", "bvf_val.rs", "iarray.rs", word_j(), ("value_word.rs", {"I": "{J}", "X": "_{J}"}),
            ("chunk.rs", {"Y": "_{J}"}), ("int_conv.rs", {"Y": "_{J}"})])
GROUPS["int_from_bvf"] = dict(name="int_from_bvf", prelude=int_conv_prelude,
    items=lambda ctx: BVF_BASE + int_impl_j(ctx) + stub(BVF_CORE) + slice_ia() + with_ctx(stub(["bvf.int_len", "bvf.get_int"]), YJ) + stub(["bvf.significant_bits"]) + with_ctx(verify(["int.try_from_bvf"]), YJ))
def int_conv_prelude_d(ctx):
    j = ctx["J"]
    sfx = {"Y": "" if j == "u64" else "_" + j}
    p = BVD_VAL_PRELUDE + ["iarray.rs"]
    if j != "u64":
        p += [word_j(), ("value_word.rs", {"I": "{J}", "X": "_{J}"}), "int_shl.rs"]
    p += [("chunk.rs", sfx), ("int_conv.rs", sfx), ("int_trunc.rs", sfx)]
    return p
GROUPS["int_from_bvd"] = dict(name="int_from_bvd", features="#![feature(allocator_api)]", prelude=int_conv_prelude_d,
    items=lambda ctx: BVD_BASE + int_impl_j(ctx) + stub(BVD_CORE) + stub(["bvd.significant_bits"]) + with_ctx(verify(["int.try_from_bvd"]), yj_d(ctx)))
def int_to_bvf_prelude(ctx):
    return int_conv_prelude(ctx) + [("word_lz_vstd.rs", {"I": "{J}", "X": "_{J}"}), ("int_cast.rs", {"Y": "_{J}"})]
GROUPS["bvf_from_int"] = dict(name="bvf_from_int", prelude=int_to_bvf_prelude,
    items=lambda ctx: BVF_BASE + int_impl_j(ctx) + [("stub", "cast.from", {"A": "{I}", "B": "{J}"}), ("stub", "cast.to", {"A": "{I}", "B": "{J}"})] + stub(BVF_CORE) + with_ctx(verify(["int.bvf_try_from"]), YJ))
def bvd_from_int_prelude(ctx):
    j = ctx["J"]
    p = BVD_VAL_PRELUDE + ["iarray.rs"]
    if j != "u64":
        p += [word_j(), ("value_word.rs", {"I": "{J}", "X": "_{J}"})]
    # the array [st] is a container over J read in u64 chunks: chunk.rs for (container J, chunk u64); value bridge int_conv for (container u64, native J)
    p += [("chunk.rs", {"I": "{J}", "J": "u64", "X": "{YJ}", "Y": ""}), ("chunk.rs", {"Y": "{YJ}"}) if j != "u64" else None, ("int_conv.rs", {"Y": "{YJ}"})]
    return [x for x in p if x]
GROUPS["bvd_from_int"] = dict(name="bvd_from_int", features="#![feature(allocator_api)]", prelude=bvd_from_int_prelude,
    items=lambda ctx: BVD_BASE + int_impl_j(ctx) + stub(BVD_CORE) + [("stub", "slice.int_len", {"I": "{J}", "J": "u64", "X": "{YJ}", "Y": ""}), ("stub", "slice.get_int", {"I": "{J}", "J": "u64", "X": "{YJ}", "Y": ""})]
        + [("verify", "int.bvd_from", {"Y": "{YJ}"})])
def bv_int_prelude(ctx):
    j = ctx["J"]
    p = list(BV_VAL_PRELUDE)
    if j != "u64":
        p += [word_j(), ("value_word.rs", {"I": "{J}", "X": "_{J}"})]
    p += [("int_cast.rs", {"Y": "{YJ}"})]
    return p
def bv_int_items(ctx):
    yj = {"Y": "{YJ}"}
    it = BV_BASE + int_impl_j(ctx)
    it += [("stub", "int.try_from_bvf", yj), ("stub", "int.try_from_bvd", yj), ("decl", "int.try_from_bvd_glue"),
           ("stub", "int.bvf_try_from", yj), ("stub", "int.bvd_from", yj)]
    it += [("verify", "int.bv_from", yj), ("verify", "int.try_from_bv", yj)]
    return it
GROUPS["bv_int"] = dict(name="bv_int", features="#![feature(allocator_api)]", prelude=bv_int_prelude, items=bv_int_items)
def div_bvf_prelude(ctx):
    p = WORD_PRELUDE + ["conv_std.rs"] + VALUE_PRELUDE + ["value_div.rs", "bvf.rs", "bvf_val.rs", "bvf_div.rs"] + rhs_bvf_prelude(dict(ctx, SGN="-"))
    if ctx["J"] != ctx["I"]:
        p += [("bvf_div.rs", {"I": "{J}", "X": "{XJ}"})]
    return p + ["cmp_std.rs", "bvf_div2.rs"]
def div_bvf_items(ctx):
    oj = {"I": "{J}", "X": "{XJ}"}
    it = BVF_BASE + rhs_bvf_items(ctx) + stub(BVF_CORE)
    it += stub(["bvf.is_zero", "bvf.significant_bits", "bvf.copy_range"])
    if ctx["J"] != ctx["I"]:
        it += [("stub", u, oj) for u in ("bvf.is_zero", "bvf.significant_bits", "bvf.copy_range", "bvf.len")]
    it += [("stub", "bvf.try_from_bvf"), ("stub", "bvf.shl_assign", {"T": "usize"}), ("stub", "bvf.shr_assign", {"T": "u32"}),
           ("stub", "bvf.partial_cmp_bvf", {"J": "{I}", "XJ": ""}), ("stub", "bvf.addsub_bvf", dict(ARITH["sub"], J="{I}", XJ=""))]
    return it + verify(["bvf.div_rem_bvf"])
GROUPS["bvf_div"] = dict(name="bvf_div", prelude=div_bvf_prelude, items=div_bvf_items)
DIVFORMS_F = ['bvf.div_ref_ref', 'bvf.div_ref_owned', 'bvf.div_owned_ref', 'bvf.div_owned_owned', 'bvf.div_assign_ref', 'bvf.div_assign_owned', 'bvf.rem_ref_ref', 'bvf.rem_ref_owned', 'bvf.rem_owned_ref', 'bvf.rem_owned_owned', 'bvf.rem_assign_ref', 'bvf.rem_assign_owned']
GROUPS["bvf_divforms"] = dict(name="bvf_divforms", prelude=lambda ctx: WORD_PRELUDE + ["conv_std.rs"] + VALUE_PRELUDE + ["bvf.rs", "bvf_val.rs"] + rhs_bvf_prelude(dict(ctx, SGN="-")),
    items=lambda ctx: BVF_BASE + rhs_bvf_items(ctx) + stub(BVF_CORE) + stub(["bvf.div_rem_bvf"]) + verify(DIVFORMS_F))
def div_bvf_bvd_prelude(ctx):
    return (WORD_PRELUDE + ["conv_std.rs"] + VALUE_PRELUDE + ["value_div.rs", "bvf.rs", "bvf_val.rs", "bvf_div.rs"] + rhs_bvd_val_prelude(dict(ctx, SGN="-")) +
            [("bvd_div.rs", {"I": "u64", "X": "{XD}"}), "cmp_std.rs", "bvf_div2.rs"])
def div_bvf_bvd_items(ctx):
    od = {"I": "u64", "X": "{XD}"}
    it = BVF_BASE + rhs_bvd_items(ctx) + stub(BVF_CORE) + stub(["bvf.is_zero", "bvf.significant_bits", "bvf.copy_range"])
    it += [("stub", u, od) for u in ("bvd.is_zero", "bvd.significant_bits", "bvd.copy_range", "bvd.len")]
    it += [("stub", "bvf.try_from_bvd"), ("stub", "bvf.shl_assign", {"T": "usize"}), ("stub", "bvf.shr_assign", {"T": "u32"}),
           ("stub", "bvf.partial_cmp_bvf", {"J": "{I}", "XJ": ""}), ("stub", "bvf.addsub_bvf", dict(ARITH["sub"], J="{I}", XJ=""))]
    return it + verify(["bvf.div_rem_bvd"])
GROUPS["bvf_div_bvd"] = dict(name="bvf_div_bvd", features="#![feature(allocator_api)]", prelude=div_bvf_bvd_prelude, items=div_bvf_bvd_items)
def div_bvd_bvf_prelude(ctx):
    c = dict(ctx, SGN="-")
    return (BVD_VAL_PRELUDE + ["value_div.rs", "bvd_div.rs"] + src_bvf_prelude(c) +
            ([("bvf_div.rs", {"I": "{J}", "X": "{XJ}"})]) + ["cmp_std.rs", "bvd_div2.rs"])
def div_bvd_bvf_items(ctx):
    oj = {"I": "{J}", "X": "{XJ}"}
    it = BVD_BASE + src_bvf_items(ctx) + stub(BVD_CORE) + stub(["bvd.is_zero", "bvd.significant_bits", "bvd.resize", "bvd.clone"])
    it += [("stub", u, oj) for u in ("bvf.is_zero", "bvf.significant_bits")]
    it += [("stub", "bvd.from_bvf"), ("stub", "bvd.shl_assign", {"T": "usize"}), ("stub", "bvd.shr_assign", {"T": "u32"}),
           ("stub", "bvd.partial_cmp_bvd"), ("stub", "bvd.addsub_bvd", ARITH_D["sub"])]
    return it + verify(["bvd.div_rem_bvf"])
GROUPS["bvd_div_bvf"] = dict(name="bvd_div_bvf", features="#![feature(allocator_api)]", prelude=div_bvd_bvf_prelude, items=div_bvd_bvf_items)
GROUPS["bvf_bytes"] = G("bvf_bytes", BVF_PRELUDE + ["bytes.rs"], BVF_BASE + [("stub", "cast.to", {"A": "{I}", "B": "u8"})] + stub(BVF_CORE) + verify(["bvf.to_vec"]))
GROUPS["bvf_from_bytes"] = dict(name="bvf_from_bytes", prelude=lambda ctx: BVF_PRELUDE + ["bytes.rs", "bytes_from_u8.rs" if ctx["I"] == "u8" else "bytes_from.rs"],
    items=lambda ctx: BVF_BASE + [("stub", "cast.from", {"A": "{I}", "B": "u8"}), ("stub", "cast.to", {"A": "{I}", "B": "u8"})] + stub(BVF_CORE)
        + verify(["bvf.from_bytes_b" if ctx["I"] == "u8" else "bvf.from_bytes_w"]))
GROUPS["bvf_io"] = dict(name="bvf_io", prelude=lambda ctx: BVF_PRELUDE + ["bytes.rs", "io.rs"],
    items=lambda ctx: BVF_BASE + stub(BVF_CORE) + stub(["bvf.to_vec", "bvf.from_bytes_b" if ctx["I"] == "u8" else "bvf.from_bytes_w"]) + verify(["bvf.read", "bvf.write"]))
GROUPS["bvd_io"] = G("bvd_io", BVD_PRELUDE + ["bytes.rs", "io.rs", "io_bvd.rs"], BVD_BASE + stub(BVD_CORE) + stub(["bvd.to_vec", "bvd.from_bytes"]) + verify(["bvd.read", "bvd.write"]))
GROUPS["bvd_io"]["features"] = "#![feature(allocator_api)]"
def digits_prelude(word):
    b = INT_BITS[word]
    return [("digits_from.rs", {"W": "1", "WP": "2", "S": "_b1", "DPW": str(b)}), ("digits_from.rs", {"W": "4", "WP": "16", "S": "_b4", "DPW": str(b // 4)}), "parse.rs"]
GROUPS["bvf_parse"] = dict(name="bvf_parse", features="use vstd::string::*;", prelude=lambda ctx: BVF_PRELUDE + digits_prelude(ctx["I"]),
    items=lambda ctx: BVF_BASE + [("stub", "cast.from", {"A": "{I}", "B": "u8"}), ("stub", "cast.to", {"A": "{I}", "B": "u8"})] + stub(BVF_CORE) + verify(["bvf.from_binary", "bvf.from_hex"]))
GROUPS["bvd_parse"] = G("bvd_parse", BVD_PRELUDE + digits_prelude("u64") + ["parse_bvd.rs"], BVD_BASE + stub(BVD_CORE) + verify(["bvd.from_binary", "bvd.from_hex"]))
GROUPS["bvd_parse"]["features"] = "#![feature(allocator_api)]\nuse vstd::string::*;"
GROUPS["bv_parse"] = G("bv_parse", BV_PRELUDE + ["bv_words.rs"] + digits_prelude("u64"), BV_BASE + stub(["bvf.from_binary", "bvf.from_hex", "bvd.from_binary", "bvd.from_hex"]) + verify(["bv.from_binary", "bv.from_hex"]))
GROUPS["bv_parse"]["features"] = "#![feature(allocator_api)]\nuse vstd::string::*;"
GROUPS["bvf_fmt"] = dict(name="bvf_fmt", features="use vstd::string::*;", prelude=lambda ctx: BVF_PRELUDE + ["iter.rs", "fmt.rs"],
    items=lambda ctx: BVF_BASE + [("decl", "decl.BitIterator"), ("stub", "cast.from", {"A": "{I}", "B": "u8"}), ("stub", "cast.to", {"A": "{I}", "B": "u8"})] + stub(BVF_CORE) + stub(["iter.new", "iter.next", "bvf.iter"])
        + verify(["bvf.fmt_binary", "bvf.fmt_lower_hex", "bvf.fmt_upper_hex", "bvf.fmt_octal"]))
GROUPS["bvf_iterfwd"] = G("bvf_iterfwd", BVF_PRELUDE + ["iter.rs", "into_iter.rs"], BVF_BASE + [("decl", "decl.BitIterator")] + stub(BVF_CORE) + stub(["iter.new"]) + verify(["bvf.into_iter_ref", "bvf.iter"]))
def fmt_dec_prelude(ctx):
    i = ctx["I"]
    p = WORD_PRELUDE + ["conv_std.rs"] + VALUE_PRELUDE + ["value_div.rs", "bvf.rs", "bvf_val.rs", "bvf_div.rs"]
    for j in ("u8", "u32"):
        if j != i:
            p += [("word.rs", {"I": j, "X": "_" + j}), ("word_lz_vstd.rs", {"I": j, "X": "_" + j})]
    p += [("int_cast.rs", {"J": "u8", "Y": "" if i == "u8" else "_u8"}), "fmt.rs", "fmt_dec.rs"]
    return p
def fmt_dec_items(ctx):
    i = ctx["I"]
    y8 = {"J": "u8", "Y": "" if i == "u8" else "_u8"}
    y32 = {"J": "u32", "Y": "" if i == "u32" else "_u32"}
    it = BVF_BASE + stub(BVF_CORE) + stub(["bvf.is_zero"])
    it += [("stub", "int.bvf_try_from", y8), ("stub", "int.try_from_bvf", y32), ("stub", "bvf.div_rem_bvf", {"J": "{I}", "XJ": ""})]
    return it + verify(["bvf.fmt_display"])
GROUPS["bvf_fmt_dec"] = dict(name="bvf_fmt_dec", features="use vstd::string::*;", prelude=fmt_dec_prelude, items=fmt_dec_items)
def fmt_dec_d_prelude(ctx):
    p = BVD_VAL_PRELUDE + ["value_div.rs", "bvd_div.rs"]
    for j in ("u8", "u32"):
        p += [("word.rs", {"I": j, "X": "_" + j}), ("word_lz_vstd.rs", {"I": j, "X": "_" + j})]
    return p + ["fmt.rs", "fmt_dec.rs"]
GROUPS["bvd_fmt_dec"] = dict(name="bvd_fmt_dec", features="#![feature(allocator_api)]\nuse vstd::string::*;", prelude=fmt_dec_d_prelude,
    items=lambda ctx: BVD_BASE + stub(BVD_CORE) + stub(["bvd.is_zero", "bvd.clone", "bvd.div_rem_bvd"])
        + [("stub", "int.bvd_from", {"J": "u8", "Y": "_u8"}), ("stub", "int.try_from_bvd", {"J": "u32", "Y": "_u32"}), ("decl", "int.try_from_bvd_glue", {"J": "u32", "Y": "_u32"})]
        + verify(["bvd.fmt_display"]))
GROUPS["bv_fmt_dec"] = G("bv_fmt_dec", BV_VAL_PRELUDE + ["fmt.rs", "fmt_dec.rs"], BV_BASE + stub(["bvf.fmt_display", "bvd.fmt_display"]) + verify(["bv.fmt_display"]))
GROUPS["bv_fmt_dec"]["features"] = "#![feature(allocator_api)]\nuse vstd::string::*;"
FMT3 = ["fmt_binary", "fmt_lower_hex", "fmt_upper_hex", "fmt_octal"]
GROUPS["bvd_fmt"] = G("bvd_fmt", BVD_PRELUDE + ["iter.rs", "fmt.rs"], BVD_BASE + [("decl", "decl.BitIterator"), ("stub", "cast.from", {"A": "u64", "B": "u8"}), ("stub", "cast.to", {"A": "u64", "B": "u8"})] + stub(BVD_CORE)
    + stub(["iter.new", "iter.next", "bvd.iter"]) + verify(["bvd." + x for x in FMT3]))
GROUPS["bvd_iterfwd"] = G("bvd_iterfwd", BVD_PRELUDE + ["iter.rs", "into_iter.rs"], BVD_BASE + [("decl", "decl.BitIterator")] + stub(BVD_CORE) + stub(["iter.new"]) + verify(["bvd.into_iter_ref", "bvd.iter"]))
GROUPS["bvd_iterfwd"]["features"] = "#![feature(allocator_api)]"
GROUPS["bv_iterfwd"] = G("bv_iterfwd", BV_PRELUDE + ["iter.rs", "into_iter.rs"], BV_BASE + [("decl", "decl.BitIterator")] + stub(["bv.len", "bv.get"]) + stub(["iter.new"]) + verify(["bv.into_iter_ref", "bv.iter"]))
GROUPS["bv_iterfwd"]["features"] = "#![feature(allocator_api)]"
GROUPS["bvd_fmt"]["features"] = "#![feature(allocator_api)]\nuse vstd::string::*;"
GROUPS["bv_fmt"] = G("bv_fmt", BV_PRELUDE + ["bv_words.rs", "fmt.rs"], BV_BASE + stub(["bvf." + x for x in FMT3] + ["bvd." + x for x in FMT3]) + verify(["bv." + x for x in FMT3]))
GROUPS["bv_fmt"]["features"] = "#![feature(allocator_api)]\nuse vstd::string::*;"
# append / prepend of Bvd with a Bvd operand (ctx: BD, J, XB, HG2 as for div_rem)
OPND = {"SD": "suffix.data@", "SL": "suffix.length", "PD": "prefix.data@", "PL": "prefix.length", "ND": "infix.data@", "NL": "infix.length"}
OPND_BV = {"SD": "suffix.words()", "SL": "suffix.slen()", "PD": "prefix.words()", "PL": "prefix.slen()", "ND": "infix.words()", "NL": "infix.slen()"}
SPLICE_D = dict({"BD": "Bvd", "J": "u64", "XB": "", "HG2": ""}, **OPND)
GROUPS["bvd_splice"] = dict(name="bvd_splice", features="#![feature(allocator_api)]",
    prelude=lambda ctx: BVD_PRELUDE + ["iarray.rs", ("chunk.rs", {"J": "u64", "Y": ""}), "splice.rs"],
    items=lambda ctx: BVD_BASE + stub(BVD_CORE) + stub(["bvd.resize"]) + [("stub", "bvd.int_len", {"J": "u64", "Y": ""}), ("stub", "bvd.get_int", {"J": "u64", "Y": ""})] + slice_ia("stub", {"J": "u64", "Y": ""})
        + verify(["bvd.append"]))
def splice_bvf_ctx(j):
    c = pair("u64", j)
    c.update({"BD": "Bvf<%s, N2>" % j, "XB": c["XJ"], "HG2": "<const N2: usize>"})
    c.update(OPND)
    return c
GROUPS["bvd_splice_bvf"] = dict(name="bvd_splice_bvf", features="#![feature(allocator_api)]",
    prelude=lambda ctx: BVD_PRELUDE + src_bvf_prelude(ctx) + ["splice.rs"],
    items=lambda ctx: BVD_BASE + src_bvf_items(ctx) + stub(BVD_CORE) + stub(["bvd.resize"]) + [("stub", "bvd.shl_assign", {"T": "usize"}), ("stub", "bvf.is_empty", {"I": "{J}", "X": "{XJ}"})]
        + verify(["bvd.append", "bvd.prepend"]))
# Bvf<I,N>.append/prepend(&Bvf<I,N2>): byte chunks of subject and operand (same word type K = I)
def splicef_ctx(i):
    return dict({"I": i, "J": "u8", "K": i, "XK": "", "Y8": "" if i == "u8" else "_u8", "BD": "Bvf<%s, N2>" % i, "HG2": "<const N2: usize>"}, **OPND)
def splicef_prelude(ctx):
    y8 = ctx["Y8"]
    p = BVF_PRELUDE + ["iarray.rs"]
    if ctx["I"] != "u8":
        p += [("word.rs", {"I": "u8", "X": "_u8"})]
    p += [("chunk.rs", {"J": "u8", "Y": y8}), "splice8.rs"]
    return p
def splicef_items(ctx):
    y = {"J": "u8", "Y": ctx["Y8"]}
    it = BVF_BASE + (int_impl_j(dict(ctx, J="u8")) if ctx["I"] != "u8" else []) + stub(BVF_CORE)
    it += [("stub", "bvf.int_len", y), ("stub", "bvf.get_int", y), ("stub", "bvf.set_int", y)] + slice_ia("stub", y)
    it += [("stub", "bvf.shl_assign", {"T": "usize"}), ("stub", "bvf.is_empty")]
    return it + verify(["bvf.append", "bvf.prepend"])
GROUPS["bvf_splice"] = dict(name="bvf_splice", prelude=splicef_prelude, items=splicef_items)
GROUPS["bvf_insert"] = dict(name="bvf_insert", prelude=lambda ctx: BVF_PRELUDE, items=lambda ctx: BVF_BASE + stub(BVF_CORE) + stub(["bvf.split_off"]) + [("stub", "bvf.append", dict({"BD": "Bvf<{I}, N2>", "HG2": "<const N2: usize>", "XK": "", "K": "{I}"}, **OPND))] + verify(["bvf.insert"]))
GROUPS["bvd_insert"] = G("bvd_insert", BVD_PRELUDE, BVD_BASE + stub(BVD_CORE) + stub(["bvd.split_off"]) + [("stub", "bvd.append", SPLICE_D)] + verify(["bvd.insert"]))
GROUPS["bvd_insert"]["features"] = "#![feature(allocator_api)]"
# operand Bv (read through its verified get_int / len; abstract view words() / slen())
SPLICE_D_BV = dict({"I": "u64", "BD": "Bv", "J": "u64", "XB": "", "HG2": ""}, **OPND_BV)
GROUPS["bvd_splice_bv"] = dict(name="bvd_splice_bv", features="#![feature(allocator_api)]",
    prelude=lambda ctx: BV_PRELUDE + ["bv_words.rs", "splice.rs"],
    items=lambda ctx: BV_BASE + stub(["bvd.resize", "bv.len", "bv.is_empty"]) + [("stub", "bvd.shl_assign", {"T": "usize"}), ("stub", "bv.int_len", {"J": "u64", "Y": ""}), ("stub", "bv.get_int", {"J": "u64", "Y": ""})]
        + verify(["bvd.append", "bvd.prepend"]))
SPLICE_F_BV = dict({"I": "u64", "J": "u8", "K": "u64", "XK": "", "Y8": "_u8", "BD": "Bv", "HG2": ""}, **OPND_BV)
GROUPS["bvf_splice_bv"] = dict(name="bvf_splice_bv", features="#![feature(allocator_api)]",
    prelude=lambda ctx: BV_PRELUDE + ["bv_words.rs", ("word.rs", {"I": "u8", "X": "_u8"}), ("chunk.rs", {"J": "u8", "Y": "_u8"}), "splice8.rs"],
    items=lambda ctx: BV_BASE + int_impl_j(dict(ctx, J="u8")) + stub(["bv.len", "bv.is_empty"])
        + [("stub", u, {"J": "u8", "Y": "_u8"}) for u in ("bvf.int_len", "bvf.get_int", "bvf.set_int", "bv.int_len", "bv.get_int")] + slice_ia("stub", {"J": "u8", "Y": "_u8"})
        + [("stub", "bvf.shl_assign", {"T": "usize"})] + verify(["bvf.append", "bvf.prepend"]))
GROUPS["bv_insert"] = dict(name="bv_insert", features="#![feature(allocator_api)]",
    prelude=lambda ctx: BV_PRELUDE + ["bv_words.rs"],
    items=lambda ctx: BV_BASE + stub(["bv.len", "bv.copy_range", "bv.resize"]) + [("stub", "bv.append", SPLICE_D_BV)] + verify(["bv.split_off", "bv.insert"]))
GROUPS["bv_splice"] = dict(name="bv_splice", features="#![feature(allocator_api)]",
    prelude=lambda ctx: BV_PRELUDE + ["bv_words.rs"],
    items=lambda ctx: BV_BASE + stub(["bv.len"]) + [("stub", "bvf.append", SPLICE_F_BV), ("stub", "bvf.prepend", SPLICE_F_BV), ("stub", "bvd.append", SPLICE_D_BV), ("stub", "bvd.prepend", SPLICE_D_BV)]
        + verify(["bv.append", "bv.prepend"]))
# Bvf<I,N>.append/prepend(&Bvd): operand words u64 (vocabulary suffix XD), byte chunks
def splicef_bvd_ctx(i):
    xd = "" if i == "u64" else "_u64"
    return dict({"I": i, "J": "u8", "K": "u64", "XK": xd, "XD": xd, "Y8": "" if i == "u8" else "_u8", "BD": "Bvd", "HG2": ""}, **OPND)
def splicef_bvd_prelude(ctx):
    i, y8, xd = ctx["I"], ctx["Y8"], ctx["XD"]
    p = BVF_PRELUDE + ["iarray.rs"]
    if i != "u8":
        p += [("word.rs", {"I": "u8", "X": "_u8"})]
    if i != "u64":
        p += [("word.rs", {"I": "u64", "X": "_u64"})]
    p += [("bvd.rs", {"X": xd}), ("chunk.rs", {"J": "u8", "Y": y8})]
    if i != "u64":
        p += [("chunk.rs", {"I": "u64", "J": "u8", "X": xd, "Y": y8})]
    return p + ["splice8.rs"]
def splicef_bvd_items(ctx):
    i, y8, xd = ctx["I"], ctx["Y8"], ctx["XD"]
    y = {"J": "u8", "Y": y8}
    yd = {"I": "u64", "J": "u8", "X": xd, "Y": y8}
    it = BVF_BASE + (int_impl_j(dict(ctx, J="u8")) if i != "u8" else []) + stub(BVF_CORE) + [("decl", "decl.Bvd")]
    if i != "u64":
        over = {"I": "u64", "X": "_u64"}
        it += [("decl", "int.constants", over)] + [("stub", u, over) for u in INT_METHODS]
        it += slice_ia("stub", yd)
    it += [("stub", "bvf.int_len", y), ("stub", "bvf.get_int", y), ("stub", "bvf.set_int", y)] + slice_ia("stub", y)
    it += [("stub", "bvd.int_len", yd), ("stub", "bvd.get_int", yd), ("stub", "bvd.len", {"X": xd}), ("stub", "bvd.is_empty", {"X": xd}), ("stub", "bvf.shl_assign", {"T": "usize"})]
    return it + verify(["bvf.append", "bvf.prepend"])
GROUPS["bvf_splice_bvd"] = dict(name="bvf_splice_bvd", features="#![feature(allocator_api)]", prelude=splicef_bvd_prelude, items=splicef_bvd_items)
GROUPS["bvd_from_bytes"] = G("bvd_from_bytes", BVD_PRELUDE + ["bytes.rs", "bytes_from.rs"], BVD_BASE + stub(BVD_CORE) + verify(["bvd.from_bytes"]))
GROUPS["bvd_from_bytes"]["features"] = "#![feature(allocator_api)]"
GROUPS["bvd_bytes"] = G("bvd_bytes", BVD_PRELUDE + ["bytes.rs"], BVD_BASE + stub(BVD_CORE) + verify(["bvd.to_vec"]))
GROUPS["bvd_bytes"]["features"] = "#![feature(allocator_api)]"
GROUPS["bv_bytes"] = G("bv_bytes", BV_PRELUDE + ["bytes.rs", "bv_words.rs", "io.rs"], BV_BASE + stub(["bvf.to_vec", "bvd.to_vec", "bvf.from_bytes_w", "bvd.from_bytes", "bvf.read", "bvf.write", "bvd.read", "bvd.write"])
    + verify(["bv.to_vec", "bv.from_bytes", "bv.read", "bv.write"]))
GROUPS["bv_bytes"]["features"] = "#![feature(allocator_api)]"
def bv_conv_prelude(ctx):
    return bv_ops_prelude(ctx)
def bv_conv_items(ctx):
    it = BV_BASE + int_impl_j(ctx) + [("stub", "bvd.clone")]
    it += [("stub", "bvf.try_from_bvf", {"I": "u64", "J": "{J}", "XJ": "{XJ}"})]
    if ctx["J"] != "u64":
        it += [("stub", "bvd.from_bvf"), ("stub", "bvf.capacity", {"I": "{J}", "X": "{XJ}"})]
    else:
        it += verify(["bv.from_bv", "bv.from_bvd_ref", "bv.from_bvd", "bvd.from_bv"])
    return it + verify(["bv.from_bvf"])
GROUPS["bv_conv"] = dict(name="bv_conv", features="#![feature(allocator_api)]", prelude=bv_conv_prelude, items=bv_conv_items)
GROUPS["bv_div"] = G("bv_div", BV_VAL_PRELUDE + ["value_div.rs", "bvf_div.rs", "bvd_div.rs", "cmp_std.rs", "bv_div.rs"],
    BV_BASE + stub(["bv.len", "bv.zeros", "bv.resize", "bv.set", "bv.is_zero", "bv.significant_bits", "bv.leading_zeros", "bv.clone", "bv.from_bv", "bv.partial_cmp_bv"]) +
    [("stub", "bv.shl_assign", {"T": "usize"}), ("stub", "bv.shr_assign", {"T": "u32"}), ("stub", "bv.addsub_bv", ARITH_D["sub"])] + verify(["bv.div_rem_bv"]))
GROUPS["bv_div"]["features"] = "#![feature(allocator_api)]"
GROUPS["bvd_conv_self"] = G("bvd_conv_self", BVD_PRELUDE + ["box_clone.rs"], BVD_BASE + stub(BVD_CORE) + verify(["bvd.from_bvd"]))
GROUPS["bvd_conv_self"]["features"] = "#![feature(allocator_api)]"
GROUPS["bvd_div"] = G("bvd_div", BVD_VAL_PRELUDE + ["value_div.rs", "bvd_div.rs", "cmp_std.rs", "bvd_div2.rs"],
    BVD_BASE + stub(BVD_CORE) + stub(["bvd.is_zero", "bvd.significant_bits", "bvd.resize", "bvd.clone", "bvd.from_bvd", "bvd.partial_cmp_bvd"]) +
    [("stub", "bvd.shl_assign", {"T": "usize"}), ("stub", "bvd.shr_assign", {"T": "u32"}), ("stub", "bvd.addsub_bvd", ARITH_D["sub"])] + verify(["bvd.div_rem_bvd"]))
GROUPS["bvd_div"]["features"] = "#![feature(allocator_api)]"
MULFORMS_F = ['bvf.mul_ref_owned', 'bvf.mul_owned_ref', 'bvf.mul_owned_owned', 'bvf.mul_assign_ref', 'bvf.mul_assign_owned']
MULFORMS_D = ['bvd.mul_ref_owned', 'bvd.mul_owned_ref', 'bvd.mul_owned_owned', 'bvd.mul_assign_ref', 'bvd.mul_assign_owned']
DIVFORMS_DD = ['bvd.div_ref_ref', 'bvd.div_ref_owned', 'bvd.div_owned_ref', 'bvd.div_owned_owned', 'bvd.div_assign_ref', 'bvd.div_assign_owned', 'bvd.rem_ref_ref', 'bvd.rem_ref_owned', 'bvd.rem_owned_ref', 'bvd.rem_owned_owned', 'bvd.rem_assign_ref', 'bvd.rem_assign_owned']
DIVFORMS_DF = ['bvd.div_ref_ref_bvf', 'bvd.div_ref_owned_bvf', 'bvd.div_owned_ref_bvf', 'bvd.div_owned_owned_bvf', 'bvd.div_assign_ref_bvf', 'bvd.div_assign_owned_bvf', 'bvd.rem_ref_ref_bvf', 'bvd.rem_ref_owned_bvf', 'bvd.rem_owned_ref_bvf', 'bvd.rem_owned_owned_bvf', 'bvd.rem_assign_ref_bvf', 'bvd.rem_assign_owned_bvf']
GROUPS["bvd_divforms"] = G("bvd_divforms", BVD_VAL_PRELUDE, BVD_BASE + stub(BVD_CORE) + stub(["bvd.div_rem_bvd"]) + verify(DIVFORMS_DD))
GROUPS["bvd_divforms"]["features"] = "#![feature(allocator_api)]"
GROUPS["bvd_divforms_bvf"] = dict(name="bvd_divforms_bvf", features="#![feature(allocator_api)]",
    prelude=lambda ctx: BVD_VAL_PRELUDE + src_bvf_prelude(dict(ctx, SGN="-")),
    items=lambda ctx: BVD_BASE + src_bvf_items(ctx) + stub(BVD_CORE) + stub(["bvd.div_rem_bvf"]) + verify(DIVFORMS_DF))
# TryFrom<&Bv> for Bvf<I,N>: the Bv vocabulary (Bvf<u64,2>, Bvd, Bv) lives under suffix XD when I != u64
def bvf_from_bv_prelude(ctx):
    p = BVF_PRELUDE + ["iarray.rs"]
    if ctx["I"] != "u64":
        p += [("word.rs", {"I": "u64", "X": "_u64"}), ("bvf.rs", {"I": "u64", "X": "_u64"})]
    p += [("bvd.rs", {"X": "{XD}"}), ("chunk.rs", {"I": "u64", "J": "{I}", "X": "{XD}", "Y": ""}), ("bv.rs", {"X": "{XD}"})]
    return p
def bvf_from_bv_items(ctx):
    od = {"I": "u64", "X": "{XD}"}
    it = BVF_BASE + [("decl", "decl.Bvd"), ("decl", "decl.Bv128"), ("decl", "decl.Bvp"), ("decl", "decl.Bv")]
    if ctx["I"] != "u64":
        it += [("decl", "int.constants", {"I": "u64", "X": "_u64"})] + [("stub", u, {"I": "u64", "X": "_u64"}) for u in INT_METHODS]
    it += stub(BVF_CORE)
    it += [("stub", "bv.len", od), ("stub", "bv.int_len", {"I": "u64", "X": "{XD}", "J": "{I}", "Y": ""}), ("stub", "bv.get_int", {"I": "u64", "X": "{XD}", "J": "{I}", "Y": ""})]
    return it + verify(["bvf.try_from_bv"])
GROUPS["bvf_conv_bv"] = dict(name="bvf_conv_bv", features="#![feature(allocator_api)]", prelude=bvf_from_bv_prelude, items=bvf_from_bv_items)
# ---- forms with the auto type: Bvf/Bvd op= &Bv (dispatch on the operand), `x op &bv` forms of Bvf<u64,N> / Bvd, and `&a op &b`, `a op &b` on Bv itself
def bv_forms_items(ctx):
    k = forms_kind(ctx)
    it = BASE_DECLS + [("decl", "decl.Bvd"), ("decl", "decl.Bv128"), ("decl", "decl.Bvp"), ("decl", "decl.Bv")] + stub_int() + BIT_CONV_STUB + [("decl", "bvf.consts"), ("decl", "bvd.consts")]
    leaf = ["bvf.addsub_bvf", "bvf.addsub_bvd", "bvd.addsub_bvf", "bvd.addsub_bvd"] if k == "val" else ["bvf.binop_bvf", "bvf.binop_bvd", "bvd.binop_bvf", "bvd.binop_bvd"]
    it += stub(leaf) + [("stub", "bvd.clone")]
    it += verify(["bvf.assign_bv_" + k, "bvd.assign_bv_" + k, "bvf.form_owned_bv_" + k, "bvf.form_ref_bv_" + k, "bvd.form_owned_bv_" + k, "bvd.form_ref_bv_" + k,
                  "bv.form_owned_bv_" + k, "bv.form_ref_bv_" + k])
    return it
GROUPS["bv_forms"] = dict(name="bv_forms", features="#![feature(allocator_api)]", prelude=bv_ops_prelude, items=bv_forms_items)
# ---- native-integer operands: Bvf<I,N> op= x  (x: T in u8..u64) = Bvf::<u64,2>::try_from(x).unwrap() then op= &temp
def uint_ctx(i, t, **kw):
    c = pair(i, "u64", **kw)          # the temporary is a Bvf<u64, 2>: operand word J = u64
    c["T"] = t
    c["YT"] = "_" + t if t not in (i, "u64") else (c["XJ"] if t == "u64" else "")
    return c
def bvf_uint_prelude(ctx):
    c = dict(ctx, SGN=ctx.get("SGN", "+"))
    p = WORD_PRELUDE + ["conv_std.rs"] + VALUE_PRELUDE + ["bvf.rs", "bvf_val.rs"] + rhs_bvf_prelude(c)
    t = ctx["T"]
    if t not in (ctx["I"], "u64"):
        p += [("word.rs", {"I": t, "X": "_" + t}), ("value_word.rs", {"I": t, "X": "_" + t})]
    p += [("word_lz_vstd.rs", {"I": t, "X": "{YT}"})] if t not in (ctx["I"],) else []
    p += [("int_conv.rs", {"I": "u64", "J": t, "X": "{XJ}", "Y": "{YT}"}), ("int_cast.rs", {"I": "u64", "J": t, "X": "{XJ}", "Y": "{YT}"})]
    return p
def bvf_uint_items(ctx):
    k = forms_kind(ctx)
    t = ctx["T"]
    it = BVF_BASE + rhs_bvf_items(ctx)
    if t not in (ctx["I"], "u64"):
        ot = {"I": t, "X": "_" + t}
        it += [("decl", "int.constants", ot)] + [("stub", u, ot) for u in INT_METHODS]
    it += stub(BVF_CORE)
    it += [("stub", "int.bvf_try_from", {"I": "u64", "J": t, "X": "{XJ}", "Y": "{YT}"})]
    it += stub(["bvf.addsub_bvf"] if k == "val" else ["bvf.binop_bvf"])
    return it + verify(["bvf.assign_uint_" + k])
GROUPS["bvf_uint"] = dict(name="bvf_uint", prelude=bvf_uint_prelude, items=bvf_uint_items)
def uint_ctx_d(t, **kw):
    c = dict({"I": "u64", "J": "u64", "XJ": "", "XD": "", "T": t, "YT": "" if t == "u64" else "_" + t}, **kw)
    return c
def tvocab(ctx):
    t = ctx["T"]
    p = []
    if t != "u64":
        p += [("word.rs", {"I": t, "X": "_" + t}), ("value_word.rs", {"I": t, "X": "_" + t}), ("word_lz_vstd.rs", {"I": t, "X": "_" + t})]
    p += [("int_conv.rs", {"I": "u64", "J": t, "X": "", "Y": "{YT}"}), ("int_cast.rs", {"I": "u64", "J": t, "X": "", "Y": "{YT}"})]
    return p
def titems(ctx):
    t = ctx["T"]
    if t == "u64":
        return []
    ot = {"I": t, "X": "_" + t}
    return [("decl", "int.constants", ot)] + [("stub", u, ot) for u in INT_METHODS]
def bvd_uint_items(ctx):
    k = forms_kind(ctx)
    it = BVD_BASE + titems(ctx) + stub(BVD_CORE) + [("stub", "int.bvd_from", {"J": "{T}", "Y": "{YT}"})]
    it += stub(["bvd.addsub_bvd"] if k == "val" else ["bvd.binop_bvd"])
    return it + verify(["bvd.assign_uint_" + k])
GROUPS["bvd_uint"] = dict(name="bvd_uint", features="#![feature(allocator_api)]",
    prelude=lambda ctx: BVD_VAL_PRELUDE + ["iarray.rs", ("chunk.rs", {"J": "u64", "Y": ""})] + tvocab(ctx), items=bvd_uint_items)
def bv_uint_items(ctx):
    k = forms_kind(ctx)
    it = BV_BASE + titems(ctx) + [("stub", "bvf.assign_uint_" + k), ("stub", "bvd.assign_uint_" + k)]
    return it + verify(["bv.assign_uint_" + k])
GROUPS["bv_uint"] = dict(name="bv_uint", features="#![feature(allocator_api)]", prelude=lambda ctx: BV_VAL_PRELUDE + tvocab(ctx), items=bv_uint_items)
# ---- shift forwarders (generated units): ctx I (Bvf storage word), T amount type
BVF_SHIFT_FORMS = ["bvf.%s_%s" % (d, f) for d in ("shl", "shr") for f in ("assign_ref", "owned_val", "owned_ref", "refrecv_val", "refrecv_ref")]
BVD_SHIFT_FORMS = ["bvd.%s_%s" % (d, f) for d in ("shl", "shr") for f in ("assign_ref", "owned_val", "owned_ref", "refrecv_ref")]
GROUPS["bvf_shift_forms"] = G("bvf_shift_forms", BVF_PRELUDE, BVF_BASE + stub(BVF_CORE) + stub(["bvf.shl_assign", "bvf.shr_assign"]) + verify(BVF_SHIFT_FORMS))
GROUPS["bvd_shift_forms"] = G("bvd_shift_forms", BVD_PRELUDE, BVD_BASE + stub(BVD_CORE) + stub(["bvd.shl_assign", "bvd.shr_assign", "bvd.shl_ref", "bvd.shr_ref"]) + verify(BVD_SHIFT_FORMS))
GROUPS["bvd_shift_forms"]["features"] = "#![feature(allocator_api)]"
BV_SHIFT_FORMS = ['bv.shl_assign_ref', 'bv.shl_owned_val', 'bv.shl_owned_ref', 'bv.shl_refrecv_val', 'bv.shl_refrecv_ref', 'bv.shr_assign_ref', 'bv.shr_owned_val', 'bv.shr_owned_ref', 'bv.shr_refrecv_val', 'bv.shr_refrecv_ref']
GROUPS["bv_shift_forms"] = G("bv_shift_forms", BV_PRELUDE, BV_BASE + stub(["bv.clone"])
    + stub(["bvf.%s_%s" % (d, f) for d in ("shl", "shr") for f in ("assign_ref", "owned_val", "owned_ref")]) + stub(["bvd.%s_%s" % (d, f) for d in ("shl", "shr") for f in ("assign_ref", "owned_val", "owned_ref")])
    + verify(BV_SHIFT_FORMS))
GROUPS["bv_shift_forms"]["features"] = "#![feature(allocator_api)]"
GROUPS["div_theory"] = dict(name="div_theory", prelude=lambda ctx: WORD_PRELUDE + VALUE_PRELUDE + ["value_div.rs"], items=lambda ctx: [("decl", "decl.Bit")])
GROUPS["mul_theory"] = dict(name="mul_theory", prelude=lambda ctx: WORD_PRELUDE + VALUE_PRELUDE + ["value_mul.rs"], items=lambda ctx: [("decl", "decl.Bit")])

def cmp_prelude(ctx):
    """self: Bvf<I,_>, other: Bvf<J,_>, both read in chunks of J"""
    p = WORD_PRELUDE + ["conv_std.rs"] + VALUE_PRELUDE + ["bvf.rs", "bvf_val.rs", "iarray.rs"]
    diff = ctx["J"] != ctx["I"]
    OJ = {"I": "{J}", "X": "{XJ}"}
    if diff:
        p += [("word.rs", OJ), ("value_word.rs", OJ), ("bvf.rs", OJ), ("bvf_val.rs", OJ)]
    p += [("chunk.rs", {"Y": "{XJ}"})]
    if diff:
        p += [("chunk.rs", {"I": "{J}", "X": "{XJ}", "Y": "{XJ}"})]
    return p + ["cmp.rs"]

def cmp_items(ctx, units):
    it = BVF_BASE + int_impl_j(ctx) + stub(BVF_CORE)
    SY = {"Y": "{XJ}"}
    it += slice_ia("stub", SY) + [("stub", "bvf.int_len", SY), ("stub", "bvf.get_int", SY)]
    if ctx["J"] != ctx["I"]:
        OJ = {"I": "{J}", "X": "{XJ}", "Y": "{XJ}"}
        it += slice_ia("stub", OJ) + [("stub", "bvf.int_len", OJ), ("stub", "bvf.get_int", OJ)]
    return it + verify(units)

GROUPS["bvf_cmp"] = dict(name="bvf_cmp", prelude=cmp_prelude, items=lambda ctx: cmp_items(ctx, ["bvf.eq_bvf", "bvf.partial_cmp_bvf"]))

# -------------------------------------------------------------------------------------------------
# property -> jobs
TYPES6 = ["u8", "u16", "u32", "u64", "u128", "usize"]
PROPS = {}

def shifts_jobs(words, amounts):
    return [("bvf_shift", {"I": w, "T": t}) for w in words for t in amounts]

def jobs(group, words, extra=None):
    out = []
    for w in words:
        c = {"I": w}
        if extra:
            c.update(extra)
        out.append((group, c))
    return out

W4 = ["u8", "u16", "u32", "u64"]
WQ = ["u64", "u8"]

U64 = {"I": "u64"}
def dshift(amounts):
    return [("bvd_shift", {"I": "u64", "T": t}) for t in amounts]

PROPS["C05"] = {
    "quick": shifts_jobs(["u64"], TYPES6) + shifts_jobs(["u8"], ["u8", "u128"]) + jobs("bvf_misc", WQ) + dshift(["u8", "u64", "u128"]) + [("bvd_misc", U64)],
    "thorough": shifts_jobs(W4, TYPES6) + jobs("bvf_misc", W4) + dshift(TYPES6) + [("bvd_misc", U64)],
}
PROPS["C06"] = {
    "quick": jobs("bvf_rot", WQ) + [("bvd_rot", U64)],
    "thorough": jobs("bvf_rot", W4) + [("bvd_rot", U64)],
}
PROPS["C16"] = {
    "quick": jobs("bvf_count", WQ) + jobs("bvf_defaults", WQ) + jobs("int_prims", WQ) + [("bvd_count", U64), ("bvd_edit", U64), ("bvd_defaults", U64)],
    "thorough": jobs("bvf_count", W4) + jobs("bvf_defaults", W4) + jobs("int_prims", W4) + [("bvd_count", U64), ("bvd_edit", U64), ("bvd_defaults", U64)],
}
PROPS["C08"] = {
    "quick": jobs("bvf_slice", WQ) + jobs("bvf_defaults", WQ) + [("bvd_slice", U64), ("bvd_defaults", U64)],
    "thorough": jobs("bvf_slice", W4) + jobs("bvf_defaults", W4) + [("bvd_slice", U64), ("bvd_defaults", U64)],
}
PROPS["C07"] = {
    "quick": jobs("bvf_core", WQ) + jobs("bvf_defaults", WQ) + [("bvd_core", U64), ("bvd_edit", U64), ("bvd_defaults", U64)],
    "thorough": jobs("bvf_core", W4) + jobs("bvf_defaults", W4) + [("bvd_core", U64), ("bvd_edit", U64), ("bvd_defaults", U64)],
}
PROPS["C19"] = {
    "quick": jobs("bvf_core", WQ) + jobs("bvf_defaults", WQ) + jobs("bvf_slice", WQ),
    "thorough": jobs("bvf_core", W4) + jobs("bvf_defaults", W4) + jobs("bvf_slice", W4),
}
PROPS["C18"] = {
    "quick": [("bvd_core", U64), ("bvd_edit", U64), ("bvd_defaults", U64)],
    "thorough": [("bvd_core", U64), ("bvd_edit", U64), ("bvd_defaults", U64)],
}

def bitops_jobs(pairs, ops=("and", "or", "xor")):
    return [("bvf_bitops", pair(i, j, **BITOPS[o])) for (i, j) in pairs for o in ops]
PROPS["C04"] = {
    "quick": bitops_jobs([("u64", "u64"), ("u64", "u8"), ("u8", "u64")]) + jobs("bvf_misc", WQ) + [("bvd_misc", U64)],
    "thorough": bitops_jobs([(i, j) for i in W4 for j in W4]) + jobs("bvf_misc", W4) + [("bvd_misc", U64)],
}


# property -> prefixes of the executable-contract harnesses (kani/src/harness.rs) used for counterexamples / bounded stand-ins
PROP_HARNESS = {
    "C01": ["add__", "sub__", "mul__"],
    "C02": ["div__"],
    "C03": ["hist__"],
    "C04": ["and__", "or__", "xor__", "not__"],
    "C05": ["shl__", "shr__", "shlin__", "shrin__"],
    "C06": ["rot__"],
    "C07": ["edit__", "splice__", "extend__"],
    "C08": ["slice__"],
    "C09": ["cmp__"],
    "C10": ["hash__"],
    "C11": ["int__"],
    "C12": ["conv__"],
    "C13": ["bytes__"],
    "C14": ["fmt__"],
    "C15": ["parse__", "parsek__"],
    "C16": ["cnt__"],
    "C17": ["iter__"],
    "C18": ["cap__", "edit__bvd", "edit__bv", "extend__bv"],
    "C19": ["fixedcap__", "edit__f"],
    "C20": ["forms__"],
}

PROPS["C09"] = {
    "quick": [("bvf_cmp", pair(i, j)) for (i, j) in [("u64", "u64"), ("u64", "u8"), ("u8", "u64")]],
    "thorough": [("bvf_cmp", pair(i, j)) for i in W4 for j in W4],
}
for _p in ["C01", "C02", "C03", "C10", "C11", "C12", "C13", "C14", "C15", "C17", "C20"]:
    PROPS.setdefault(_p, {"quick": [], "thorough": []})
PROPS["C19"]["debug_profile_too"] = ["fixedcap__"]
PROPS["C04"]["quick"] += [("bvd_bitops", dict(U64, **BITOPS[o])) for o in ("and", "or", "xor")]
PROPS["C04"]["thorough"] += [("bvd_bitops", dict(U64, **BITOPS[o])) for o in ("and", "or", "xor")]
PROPS["C01"] = {
    "quick": [("bvf_arith", pair(i, j, **ARITH[o])) for (i, j) in [("u64", "u64"), ("u64", "u8"), ("u8", "u64")] for o in ("add", "sub")] + jobs("int_prims", WQ),
    "thorough": [("bvf_arith", pair(i, j, **ARITH[o])) for i in W4 for j in W4 for o in ("add", "sub")] + jobs("int_prims", W4),
}

def dctx(i, **kw):
    """job ctx for an operation on Bvf<I,..> with a Bvd operand/source (u64 words, vocabulary suffix XD)"""
    c = {"I": i, "XD": "" if i == "u64" else "_u64"}
    c.update(kw)
    return c
PQ = [("u64", "u64"), ("u64", "u8"), ("u8", "u64")]
PT = [(i, j) for i in W4 for j in W4]
def iarray_jobs(pairs, dj):
    """the chunk readers every mixed-word-size unit relies on: Bvf<I,_> read as J chunks, Bvd read as J chunks"""
    dpairs = [("u64", j) for j in dj if ("u64", j) not in pairs]
    return [("bvf_iarray", {"I": i, "J": j}) for (i, j) in pairs] + [("bvd_iarray", {"I": "u64", "J": j}) for j in dj] + slice_jobs(list(pairs) + dpairs)
IA_Q, IA_T = iarray_jobs(PQ, WQ), iarray_jobs(PT, W4)
CONV_Q = [("bvf_conv_bvf", pair(i, j)) for (i, j) in PQ] + [("bvd_conv_bvf", pair("u64", j)) for j in WQ] + [("bvf_conv_bvd", dctx(i)) for i in WQ]
CONV_T = [("bvf_conv_bvf", pair(i, j)) for (i, j) in PT] + [("bvd_conv_bvf", pair("u64", j)) for j in W4] + [("bvf_conv_bvd", dctx(i)) for i in W4]
PROPS["C12"] = {"quick": CONV_Q + IA_Q, "thorough": CONV_T + IA_T}
for _p in ("C01", "C04", "C09"):
    PROPS[_p]["quick"] += IA_Q
    PROPS[_p]["thorough"] += IA_T
PROPS["C04"]["quick"] += [("bvf_bitops_bvd", dctx(i, **BITOPS[o])) for i in WQ for o in ("and", "or", "xor")]
PROPS["C04"]["thorough"] += [("bvf_bitops_bvd", dctx(i, **BITOPS[o])) for i in W4 for o in ("and", "or", "xor")]
PROPS["C19"]["quick"] += [("bvf_conv_bvf", pair("u8", "u64")), ("bvf_conv_bvd", dctx("u8"))]
PROPS["C19"]["thorough"] += CONV_T
PROPS["C18"]["quick"] += [("bvd_conv_bvf", pair("u64", "u64"))]
PROPS["C18"]["thorough"] += [("bvd_conv_bvf", pair("u64", j)) for j in W4]

PROPS["C04"]["quick"] += [("bvd_bitops_bvf", pair("u64", j, **BITOPS[o])) for j in WQ for o in ("and", "or", "xor")]
PROPS["C04"]["thorough"] += [("bvd_bitops_bvf", pair("u64", j, **BITOPS[o])) for j in W4 for o in ("and", "or", "xor")]
MIXED_ARITH_Q = [("bvf_arith_bvd", dctx(i, **ARITH[o])) for i in WQ for o in ("add", "sub")] + [("bvd_arith_bvf", pair("u64", j, **ARITH_D[o])) for j in WQ for o in ("add", "sub")]
MIXED_ARITH_T = [("bvf_arith_bvd", dctx(i, **ARITH[o])) for i in W4 for o in ("add", "sub")] + [("bvd_arith_bvf", pair("u64", j, **ARITH_D[o])) for j in W4 for o in ("add", "sub")]
PROPS["C01"]["quick"] += MIXED_ARITH_Q
PROPS["C01"]["thorough"] += MIXED_ARITH_T
# ---- Bv (auto type): dispatch + inline/heap switching, every callee a verified stub
BV_CORE_J, BV_MORE_J = [("bv_core", U64)], [("bv_more", U64)]
def bv_shift_jobs(ts):
    return [("bv_shift", {"I": "u64", "T": t}) for t in ts]
def bv_ops_jobs(js, ops, table):
    return [("bv_ops", pair("u64", j, **table[o])) for j in js for o in ops]
for _p in ("C18", "C07", "C19"):
    PROPS[_p]["quick"] += BV_CORE_J
    PROPS[_p]["thorough"] += BV_CORE_J
for _p in ("C05", "C06", "C08", "C16", "C04"):
    PROPS[_p]["quick"] += BV_MORE_J
    PROPS[_p]["thorough"] += BV_MORE_J
PROPS["C05"]["quick"] += bv_shift_jobs(["u8", "u128"])
PROPS["C05"]["thorough"] += bv_shift_jobs(TYPES6)
PROPS["C04"]["quick"] += bv_ops_jobs(WQ, ("and", "or", "xor"), BITOPS)
PROPS["C04"]["thorough"] += bv_ops_jobs(W4, ("and", "or", "xor"), BITOPS)
PROPS["C01"]["quick"] += bv_ops_jobs(WQ, ("add", "sub"), ARITH_D)
PROPS["C01"]["thorough"] += bv_ops_jobs(W4, ("add", "sub"), ARITH_D)
def cmp_more_jobs(ws):
    return ([("bvd_cmp", U64), ("bvd_cmp_fwd", U64)] + [("bvd_cmp_bvf", pair("u64", j)) for j in ws] +
            [("bvf_cmp_fwd", dctx(i)) for i in ws] + [("bv_cmp", pair("u64", j)) for j in ws])
PROPS["C09"]["quick"] += cmp_more_jobs(WQ)
PROPS["C09"]["thorough"] += cmp_more_jobs(W4)
def mul_jobs(pairs, ws):
    return ([("bvf_mul", pair(i, j)) for (i, j) in pairs] + [("bvf_mul_bvd", dctx(i)) for i in ws] + [("bvd_mul", U64)] + [("bvd_mul_bvf", pair("u64", j)) for j in ws])
PROPS["C01"]["quick"] += mul_jobs(PQ, WQ)
PROPS["C01"]["thorough"] += mul_jobs(PT, W4)
PROPS["C17"] = {"quick": [("iter_bvd", dict(U64, **ITER_BVD)), ("iter_bv", dict(U64, **ITER_BV)), ("bvd_iterfwd", dict(U64, **ITER_BVD)), ("bv_iterfwd", dict(U64, **ITER_BV))] + [("iter_bvf", iter_bvf(i)) for i in WQ] + [("bvf_iterfwd", iter_bvf(i)) for i in WQ],
                 "thorough": [("iter_bvd", dict(U64, **ITER_BVD)), ("iter_bv", dict(U64, **ITER_BV)), ("bvd_iterfwd", dict(U64, **ITER_BVD)), ("bv_iterfwd", dict(U64, **ITER_BV))] + [("iter_bvf", iter_bvf(i)) for i in W4] + [("bvf_iterfwd", iter_bvf(i)) for i in W4]}
def shift_forms_jobs(ws, ts):
    return [("bvf_shift_forms", {"I": i, "T": t}) for i in ws for t in ts] + [("bvd_shift_forms", {"I": "u64", "T": t}) for t in ts] + [("bv_shift_forms", {"I": "u64", "T": t}) for t in ts]
PROPS["C05"]["quick"] += shift_forms_jobs(["u8"], ["u128"])
PROPS["C05"]["thorough"] += shift_forms_jobs(W4, TYPES6)
def dshift_ref(ts):
    return [("bvd_shift_ref", {"I": "u64", "T": t}) for t in ts]
PROPS["C05"]["quick"] += dshift_ref(["u8", "u128"])
PROPS["C05"]["thorough"] += dshift_ref(TYPES6)
PROPS["C12"]["quick"] += [("bv_conv", pair("u64", j)) for j in WQ] + [("bvf_conv_bv", dctx(i)) for i in WQ]
PROPS["C12"]["thorough"] += [("bv_conv", pair("u64", j)) for j in W4] + [("bvf_conv_bv", dctx(i)) for i in W4]
def hash_jobs(ws):
    return ([("bvf_hash", {"I": i}) for i in ws] + [("bvd_hash", U64), ("bv_hash", U64), ("bv_defaults", U64), ("bv_iarray", {"I": "u64", "J": "u64"})] +
            jobs("bvf_defaults", ws) + [("bvd_defaults", U64)])
PROPS["C10"] = {"quick": hash_jobs(WQ), "thorough": hash_jobs(W4)}
PROPS["C16"]["quick"] += [("bv_defaults", U64)]
PROPS["C16"]["thorough"] += [("bv_defaults", U64)]
PROPS["C12"]["quick"] += [("bv_iarray", {"I": "u64", "J": j}) for j in WQ]
PROPS["C12"]["thorough"] += [("bv_iarray", {"I": "u64", "J": j}) for j in W4]
def uint_jobs(its, ts, bitops, arith):
    out = []
    for (i, t) in its:
        out += [("bvf_uint", uint_ctx(i, t, **BITOPS[o])) for o in bitops] + [("bvf_uint", uint_ctx(i, t, **ARITH[o])) for o in arith]
    for t in ts:
        out += [("bvd_uint", uint_ctx_d(t, **BITOPS[o])) for o in bitops] + [("bvd_uint", uint_ctx_d(t, **ARITH_D[o])) for o in arith]
        out += [("bv_uint", uint_ctx_d(t, **BITOPS[o])) for o in bitops] + [("bv_uint", uint_ctx_d(t, **ARITH_D[o])) for o in arith]
    return out
PROPS["C01"]["quick"] += uint_jobs([("u64", "u8"), ("u8", "u64")], ["u8"], (), ("add",)) + uint_jobs([], ["u64"], (), ("sub",))
PROPS["C01"]["thorough"] += uint_jobs([(i, t) for i in W4 for t in W4], W4, (), ("add", "sub"))
PROPS["C04"]["quick"] += uint_jobs([("u64", "u8"), ("u8", "u64")], ["u8"], ("or",), ()) + uint_jobs([], ["u64"], ("xor",), ())
PROPS["C04"]["thorough"] += uint_jobs([(i, t) for i in W4 for t in W4], W4, ("and", "or", "xor"), ())
UINT_Q20 = uint_jobs([("u8", "u16")], ["u32"], ("and",), ("sub",))
def forms_jobs(pairs, js, bitops, arith):
    out = []
    for j in js:
        out += [("bvd_forms", pair("u64", j, **BITOPS[o])) for o in bitops] + [("bvd_forms", pair("u64", j, **ARITH_D[o])) for o in arith]
    for (i, j) in pairs:
        out += [("bvf_forms", pair(i, j, **BITOPS[o])) for o in bitops] + [("bvf_forms", pair(i, j, **ARITH[o])) for o in arith]
    return out
def bv_forms_jobs(bitops, arith):
    return [("bv_forms", pair("u64", "u64", **BITOPS[o])) for o in bitops] + [("bv_forms", pair("u64", "u64", **ARITH_D[o])) for o in arith]
FORMS_Q = UINT_Q20 + bv_forms_jobs(("or",), ("add", "sub")) + forms_jobs([("u64", "u64"), ("u8", "u64")], ["u64"], ("or",), ("add", "sub")) + forms_jobs([], ["u8"], ("xor",), ())
FORMS_T = bv_forms_jobs(("and", "or", "xor"), ("add", "sub")) + forms_jobs(PT, W4, ("and", "or", "xor"), ("add", "sub"))
def yj64(j):
    return "" if j == "u64" else "_" + j
def int_conv_jobs(ws):
    out = []
    for j in ws:
        out += [("int_from_bvf", {"I": i, "J": j}) for i in ws] + [("bvf_from_int", {"I": i, "J": j}) for i in ws]
        out += [("int_from_bvd", {"I": "u64", "J": j}), ("bvd_from_int", {"I": "u64", "J": j, "YJ": yj64(j)}), ("bv_int", {"I": "u64", "J": j, "YJ": yj64(j)})]
    return out + jobs("bvf_defaults", ws) + [("bvd_defaults", U64), ("bv_defaults", U64)]
PROPS["C11"] = {"quick": int_conv_jobs(WQ), "thorough": int_conv_jobs(W4)}
def bytes_jobs(ws):
    return ([("bvf_bytes", {"I": i}) for i in ws] + [("bvd_bytes", U64), ("bv_bytes", U64)]
            + [("bvf_from_bytes", {"I": i}) for i in ws] + [("bvf_io", {"I": i}) for i in ws] + [("bvd_from_bytes", U64), ("bvd_io", U64)])
PROPS["C13"] = {"quick": bytes_jobs(WQ), "thorough": bytes_jobs(W4)}
BVD_ARITH_JOBS = [("bvd_arith", dict(U64, **ARITH_D[o])) for o in ("add", "sub")]
PROPS["C01"]["quick"] += BVD_ARITH_JOBS
PROPS["C01"]["thorough"] += BVD_ARITH_JOBS
# C03 (wrap-around / normalisation after every arithmetic and bitwise operation) and C20 (all operator forms funnel into the
# compound-assignment bodies) ride on the same verified units: each is tagged with the properties it carries
_ARITH_Q = [("bvf_arith", pair(i, j, **ARITH[o])) for (i, j) in [("u64", "u64"), ("u8", "u64")] for o in ("add", "sub")]
_BITOPS_Q = [("bvf_bitops", pair(i, j, **BITOPS[o])) for (i, j) in [("u64", "u64"), ("u64", "u8")] for o in ("and", "or", "xor")] + \
            [("bvd_bitops", dict(U64, **BITOPS[o])) for o in ("and", "or", "xor")]
_BV_Q = BV_CORE_J + BV_MORE_J + bv_ops_jobs(["u64"], ("or",), BITOPS) + bv_ops_jobs(["u64"], ("add", "sub"), ARITH_D)
# ... plus the editing / slicing units (normalisation after resize, copy_range, push/pop is where stale storage would appear)
_EDIT_Q = jobs("bvf_core", ["u64"]) + jobs("bvf_slice", WQ) + [("bvd_core", U64), ("bvd_edit", U64), ("bvd_slice", U64)]
PROPS["C03"] = {"quick": _ARITH_Q + BVD_ARITH_JOBS + _BITOPS_Q + _BV_Q + _EDIT_Q, "thorough": PROPS["C01"]["thorough"] + PROPS["C04"]["thorough"]}
PROPS["C20"] = {"quick": _ARITH_Q + BVD_ARITH_JOBS + _BITOPS_Q + bv_ops_jobs(["u64"], ("or",), BITOPS) + bv_ops_jobs(["u64"], ("add", "sub"), ARITH_D) + bv_shift_jobs(["u128"]) + dshift_ref(["u128", "usize"]) + [("bvd_misc", U64)] + shift_forms_jobs(["u64"], ["u8"]) + FORMS_Q, "thorough": PROPS["C01"]["thorough"] + PROPS["C04"]["thorough"] + PROPS["C05"]["thorough"] + FORMS_T}
def div_jobs(pairs, ws):
    return ([("div_theory", {"I": "u64"})] + [("bvf_div", pair(i, j)) for (i, j) in pairs] + [("bvf_div_bvd", dctx(i)) for i in ws] + [("bvd_div_bvf", pair("u64", j)) for j in ws] + [("bv_div", U64), ("bvd_div", U64), ("bvd_conv_self", U64)])
PROPS["C02"] = {"quick": BVD_ARITH_JOBS[1:] + div_jobs(PQ, WQ), "thorough": BVD_ARITH_JOBS + div_jobs(PT, W4)}

# -------------------------------------------------------------------------------------------------
# manifest texts
NOT_CLAIMED = {}
# the slice-level re-chunking (int_len everywhere; get_int/set_int where the slice word is narrower than the chunk) and the StaticCast impls, under proof
for _p in ("C07", "C11"):
    PROPS[_p]["quick"] += slice_jobs([("u8", "u64")])
    PROPS[_p]["thorough"] += slice_jobs(PT)
for _p in ("C01", "C04", "C11", "C12", "C13"):
    PROPS[_p]["quick"] += cast_jobs(WQ)
    PROPS[_p]["thorough"] += cast_jobs(W4)

def parse_jobs(ws):
    return [("bvf_parse", {"I": i}) for i in ws] + [("bvd_parse", U64), ("bv_parse", U64)]
PROPS["C15"] = {"quick": parse_jobs(WQ), "thorough": parse_jobs(W4)}

def fmt_jobs(ws):
    return ([("bvf_fmt", iter_bvf(i)) for i in ws] + [("bvf_iterfwd", iter_bvf(i)) for i in ws]
            + [("bvd_fmt", dict(U64, **ITER_BVD)), ("bvd_iterfwd", dict(U64, **ITER_BVD)), ("bv_fmt", U64)]
            + [("bvf_fmt_dec", {"I": i}) for i in ws] + [("bvd_fmt_dec", U64), ("bv_fmt_dec", U64)])
PROPS["C14"] = {"quick": fmt_jobs(WQ), "thorough": fmt_jobs(W4)}

def slice_conv_jobs(pairs, ws):
    """conversions from a slice of native integers: TryFrom<&[J]> for Bvf<I,N>, From<&[J]> for Bvd, and the set_int of Bvd they use"""
    return ([("bvf_from_slice", {"I": i, "J": j}) for (i, j) in pairs] + [("bvf_set_int", {"I": i, "J": j}) for (i, j) in pairs]
            + [("bvd_from_slice", {"I": "u64", "J": j}) for j in ws] + [("bvd_set_int", {"I": "u64", "J": j}) for j in ws])
for _p in ("C11", "C12"):
    PROPS[_p]["quick"] += slice_conv_jobs([("u64", "u8"), ("u8", "u64")], ["u8"])
    PROPS[_p]["thorough"] += slice_conv_jobs(PT, W4)
def splice_jobs(ws):
    return ([("bvd_splice", dict(U64, **SPLICE_D)), ("bvd_insert", dict(U64, **OPND)), ("bvd_splice_bv", SPLICE_D_BV), ("bvf_splice_bv", SPLICE_F_BV), ("bv_splice", SPLICE_D_BV), ("bv_insert", SPLICE_D_BV)]
            + [("bvd_splice_bvf", splice_bvf_ctx(j)) for j in ws] + [("bvf_splice", splicef_ctx(i)) for i in ws] + [("bvf_splice_bvd", splicef_bvd_ctx(i)) for i in ws]
            + [("bvf_set_int", {"I": i, "J": "u8"}) for i in ws] + [("bvf_insert", dict({"I": i}, **OPND)) for i in ws])
PROPS["C07"]["quick"] += splice_jobs(WQ)
PROPS["C07"]["thorough"] += splice_jobs(W4)
PROPS["C18"]["quick"] += [("bvd_splice", dict(U64, **SPLICE_D)), ("bv_splice", SPLICE_D_BV)]
PROPS["C18"]["thorough"] += [("bvd_splice", dict(U64, **SPLICE_D)), ("bv_splice", SPLICE_D_BV), ("bvd_splice_bv", SPLICE_D_BV)] + [("bvd_splice_bvf", splice_bvf_ctx(j)) for j in W4]
PROPS["C19"]["quick"] += [("bvf_splice", splicef_ctx("u8"))]
PROPS["C19"]["thorough"] += [("bvf_splice", splicef_ctx(i)) for i in W4]

def muldiv_forms_jobs(pairs, ws):
    return ([("bvf_divforms", pair(i, j)) for (i, j) in pairs] + [("bvf_mulforms", pair(i, j)) for (i, j) in pairs]
            + [("bvd_divforms", U64), ("bvd_mulforms", U64)] + [("bvd_divforms_bvf", pair("u64", j)) for j in ws])
PROPS["C20"]["quick"] += muldiv_forms_jobs([("u64", "u64"), ("u8", "u64")], ["u8"])
PROPS["C20"]["thorough"] += muldiv_forms_jobs(PT, W4)
PROPS["C02"]["quick"] += [("bvf_divforms", pair("u64", "u8")), ("bvd_divforms", U64)]
PROPS["C02"]["thorough"] += [("bvf_divforms", pair(i, j)) for (i, j) in PT] + [("bvd_divforms", U64)] + [("bvd_divforms_bvf", pair("u64", j)) for j in W4]
PROPS["C01"]["quick"] += [("bvf_mulforms", pair("u64", "u8")), ("bvd_mulforms", U64)]
PROPS["C01"]["thorough"] += [("bvf_mulforms", pair(i, j)) for (i, j) in PT] + [("bvd_mulforms", U64)]

MANIFEST_TEXT = {}
TRUST_NOTE = ("Trusted base (also listed verbatim in the evidence): assumed contracts of std functions (T1: overflowing_add/sub, "
              "Result::map_or, integer TryFrom, ...), machine model 64-bit little-endian (T5), storage < usize::MAX/2 bits (A-size), "
              "Bvf::new/Bvd::new called with well-formed parts (A-new), rustc expansion + the extractor's rewrite table R1-R12, Verus + Z3.")
MANIFEST_TEXT["C05"] = dict(
    text=("Proof: the real bodies of ShlAssign/ShrAssign<T> for Bvf<I,N> (T = all six native types), extracted from /repo on every run, "
          "are verified by Verus against the bit-list contract `bit i of result == bit i-k (resp. i+k) of self if in range else 0`, for all "
          "lengths, all values, symbolic N, and the mathematical value of the shift amount (so amounts >= 2^64 are covered)."),
    note=("Covered so far: Bvf<u8|u16|u32|u64,N> assign forms. Not yet under contract (reported in evidence.uncovered): Bvd/Bv shifts, "
          "shl_in/shr_in, by-value/by-reference wrapper forms, u128/usize words. " + TRUST_NOTE),
)

COVER_BVF = ("Covered so far: the Bvf<u8|u16|u32|u64, N> implementation (symbolic N), the Bvd implementation (symbolic word count, spare capacity included) and the Bv (auto) layer on top of them "
             "(dispatch on the inline Bvf<u64,2> / heap Bvd representation incl. the switching in reserve, shrink_to_fit, push, resize, copy_range; abstract view slen/sbit/scap), all lengths and values, dev and release expansions. ")
TODO_NOTE = "Not yet under contract (so a change there is NOT detected by the proof stage yet): u128/usize word types, Bv::append/prepend"
MANIFEST_TEXT["C05"]["note"] = (COVER_BVF + "Units: ShlAssign/ShrAssign<T> for all six T, shl_in, shr_in. " + TODO_NOTE + ". The by-value / by-reference shift forms of Bvf, Bvd and Bv (forwarders: dispatch on the representation, clone + shift) are verified against the same contract. " + TRUST_NOTE)
MANIFEST_TEXT["C06"] = dict(
    text=("Proof: the real bodies of Bvf::rotl / Bvf::rotr are verified against `bit t of result == bit (t+n-k) mod n (resp. (t+k) mod n) of self`, "
          "length unchanged, storage beyond len zero, for all n, values and 0 <= k <= n; inverse/complement laws follow from proved index lemmas (spec/prelude/rot.rs)."),
    note=COVER_BVF + TODO_NOTE + ". " + TRUST_NOTE)
MANIFEST_TEXT["C16"] = dict(
    text=("Proof: leading_zeros/leading_ones/trailing_zeros/trailing_ones/is_zero and the default significant_bits are verified against exact run-length "
          "contracts over the bit list (count <= len, all bits in the run equal, the bit after the run differs), on top of verified contracts of the per-word primitives."),
    note=COVER_BVF + TODO_NOTE + ". Word-level leading/trailing counts rest on vstd's axioms for u8..u64. " + TRUST_NOTE)
MANIFEST_TEXT["C08"] = dict(
    text=("Proof: copy_range is verified against `bit i of result == bit s+i of self` for every storage bit (so the result is well formed), and the trait "
          "defaults split_off/split/first/last are verified against list contracts, instantiated for the implementing type."),
    note=COVER_BVF + TODO_NOTE + ". " + TRUST_NOTE)
MANIFEST_TEXT["C07"] = dict(
    text=("Proof: push/pop/set/resize, the trait defaults truncate/sign_extend, and append / prepend / insert are verified against list-edit contracts that fix every storage bit of the result "
          "(append: the old bits, then the operand's bits, length = sum; prepend: the operand's bits, then the old bits shifted up; insert(i, x): x's bits at i..i+len(x), the rest shifted up; empty operands included). "
          "append/prepend are the real word-granular splice of Bvd (operand Bvd, Bv or Bvf<J,N2>, J = u8..u64: aligned copy, funnel of two operand words across the word boundary, final partial word), the real byte-granular splice of Bvf<I,N> "
          "(operand Bvf<I,N2> or Bvd for I = u8..u64, operand Bv for the inline type Bvf<u64,2>; through the verified get_int::<u8> / set_int::<u8>), each proved against one splice theory (spec/prelude/splice.rs, splice8.rs), and the dispatch of Bv "
          "(operand Bv: stays inline exactly when the result fits 128 bits, otherwise converts to the heap representation first); exceeding a fixed capacity is a reachable panic only under "
          "`len + operand len > capacity` (panics_if), prepend of an empty operand returns unchanged; insert is the trait default (split_off + two appends) for Bvf, Bvd and Bv (infix of the subject's own implementation) over those contracts."),
    note=COVER_BVF + TODO_NOTE + ". Not under contract (second engine only): Bvf subject with a Bvf operand of ANOTHER word size, Bv subject with a Bvf/Bvd operand, Extend/FromIterator (`iter.for_each(|b| self.push(b))`: closure-driven adapter). "
         "R30 (unit-local): the arguments of `self.set_int(last, self.get_int(last).unwrap() | prefix.get_int(last).unwrap())` and `*b |= prefix.get_int(last).unwrap()` are bound to named temporaries in evaluation order so that the proof can refer to them. "
         "Bvf::set_int and the byte reads rest on the slice-level contract T2 (unsafe align_to: u8 chunks of wider words). " + TRUST_NOTE)
MANIFEST_TEXT["C19"] = dict(
    text=("Proof, both build profiles: every verified Bvf unit establishes wf (len <= capacity, storage beyond len zero); zeros/ones/push/resize/sign_extend/repeat carry "
          "`panics_if would exceed capacity` - every explicit panic site is reachable only under that condition and returning implies its negation - in the dev AND the release expansion."),
    note=COVER_BVF + "Also verified with their capacity behaviour: from_bytes / from_binary / from_hex / read (Err(NotEnoughCapacity) resp. Err(InvalidInput), see C13, C15), TryFrom (C11, C12), append/prepend/insert of Bvf (panic exactly when the result exceeds the capacity, C07). Not yet under contract: extend / FromIterator, the debug-only index asserts of get/set/copy_range as a separate dev-profile instance. " + TRUST_NOTE)

MANIFEST_TEXT["C18"] = dict(
    text=("Proof: Bvd::{with_capacity,reserve,shrink_to_fit,capacity,push,pop,resize,zeros,ones} are verified against contracts that keep every bit and the length, "
          "state the resulting word count exactly (capacity >= len + k after reserve; shrink_to_fit leaves exactly the words of a fresh vector), preserve wf (len <= capacity, "
          "spare words zero), and contain no reachable explicit panic (no capacity failure) under A-size."),
    note="Covered: Bvd and Bv (Bv::reserve/shrink_to_fit/with_capacity/zeros/ones/push/pop/resize incl. the inline<->heap switch through the verified conversions Bvd<-Bvf and Bvf<-Bvd: bits and length unchanged, capacity >= len + k after reserve, after shrink_to_fit inline iff len <= 128 else exactly ceil(len/64) words). Not yet under contract: append/prepend/extend growth paths (second engine only). " + TRUST_NOTE)

DYN_NOTE = (" Second engine on every run (never counted as proof): the executable form of the contract (kani/src, written from the property statement, "
            "u128 reference model) is run natively on the real crate with seeded random inputs over Bvf<u8,2|3>, Bvf<u16,2>, Bvf<u64,2>, Bvd (<= 2 words, spare capacity included) "
            "and Bv (both storage modes); in the thorough tier Kani 0.68/CBMC explores ALL lengths and values of the small Bvf types (bounded stand-in). "
            "A failing input is replayed on the real code and reported with the VIOLATION line.")
EXPL = "exploration"
def dyn_only(pid, what, todo):
    MANIFEST_TEXT[pid] = dict(category=EXPL,
        text=("Bounded/random stand-in only (no deductive proof yet for this property): " + what + DYN_NOTE),
        note=("NOT a proof. " + todo + " " + TRUST_NOTE),
        technique="executable contracts on the real crate: seeded random search every run + Kani/CBMC bounded-exhaustive on small types (stand-in for contract units still to be written)")
MANIFEST_TEXT["C02"] = dict(
    text=("Proof: the real restoring-division bodies `div_rem` of Bvf<I,N> (divisor Bvf<J,N2> of any word size, or Bvd) of Bvd (divisor Bvf<J,N2>) and of Bv (divisor Bv: the auto type against itself, over its abstract view, every callee a verified Bv-level contract) are verified against the VALUE-level contract "
          "`q.val == a.val / b.val, r.val == a.val % b.val, both of the dividend's length and well formed`, with `panics_if b.val == 0`: the only reachable panic is the division-by-zero assert (reached exactly when the "
          "divisor's value is zero, empty divisors included) and `expect`/`unwrap` of the divisor conversion is proved unreachable also when the divisor is LONGER than the dividend or than its fixed capacity (D7). "
          "The loop invariant is the classical one (divisor = b*2^i, rem < b*2^(i+1), a = q*b + rem, quotient bits <= i clear) over exact integer equations; every callee is a verified contract "
          "(is_zero, significant_bits, copy_range, conversions, resize, <<=, >>=, -=, set, partial_cmp) bridged to values by a proved theory (spec/prelude/value_div.rs). "
          "Exploration for the rest: div_rem, /, %, /=, %= against u128 division for nine implementation pairings and native divisors; zero divisors must panic (checked natively)." + DYN_NOTE),
    note=("Bvd / Bvd is verified too. Not under contract (second engine only): Bvd / Bv, Bv / Bvf, Bv / Bvd, Bvf / Bv (same algorithm text with other divisor conversions), the operator forms / % /= %= (forward to div_rem), native-integer divisors. "
          "`rem >= divisor` is rewritten to a helper that is std's default PartialOrd::ge over the verified partial_cmp (R22, T1). A-size: len + 64 <= usize::MAX/2 for Bvd operands. " + TRUST_NOTE))
MANIFEST_TEXT["C03"] = dict(
    text=("Proof (per operation, inductive over histories): every unit under contract takes a well-formed vector (len <= capacity, every storage bit at or beyond len zero) to a well-formed vector and states its "
          "result over the whole abstract view, so after ANY sequence of the operations under contract the storage is normalised and every observer under contract sees only the bits below len; the check of this "
          "property re-verifies the arithmetic and bitwise compound assignments (Bvf op= &Bvf for both chunking branches, Bvd op= &Bvd; value-level wrap-around contract for += and -=), the other families are "
          "re-verified under C04-C08, C16, C18. Exploration for the rest: random histories of up to 6 public operations (23 kinds, operands of other implementations) followed by a comparison of EVERY observer and of the "
          "next operation against a freshly built vector with the same bits." + DYN_NOTE),
    note=("The induction covers only operations under contract (see functions_under_contract in the evidence of C01, C04-C09, C16, C18, C19); multiplication, division, native-integer operands, append/prepend/insert "
          "operands are covered by the second engine only. " + TRUST_NOTE))
MANIFEST_TEXT["C09"] = dict(
    text=("Proof: EVERY PartialEq / PartialOrd / Ord impl of the crate is under contract `r == (val(a) == val(b))` resp. `r == Some(ord(val(a), val(b)))` / `ord(val(a), val(b))` over the unsigned VALUES: "
          "the three leaf algorithms (Bvf vs Bvf for any two word sizes, chunk-wise through get_int; Bvd vs Bvd word-wise with missing words read as 0, == and cmp; Bvd vs Bvf<J,N>) are verified against a proved theory of the "
          "value of a bit list (injectivity, order decided by the top differing word), and every forwarding impl (Bvf vs Bvd / Bv, Bvd vs Bv, all Bv impls incl. Ord::cmp, PartialOrd-via-cmp, the reversed delegations through "
          "Ordering::reverse) is verified against the same value-level contract with the leaf contracts as stubs. Reflexivity/symmetry/transitivity/totality, agreement between == and cmp, and independence of length, "
          "implementation, word size and spare capacity follow because all are the same functions of two naturals." + DYN_NOTE),
    note=("Comparison impls are emitted as inherent methods (Verus mis-verifies reversed for-loops reached from a trait impl; DESIGN 0), overloaded calls are resolved to the inherent names by recorded unit-local rewrites (R19b). "
          "Assumed: Ordering::reverse (T1), A-size for comparisons: a Bvd/Bv operand is shorter than usize::MAX/64 bits (the Bvd-vs-Bvf loops run over max(len_in_BITS, words) indices). u128/usize word types: second engine only. " + TRUST_NOTE))
MANIFEST_TEXT["C10"] = dict(
    text=("Proof: Hash::hash of Bvf<I,N>, Bvd and Bv is verified against `what the Hasher is fed == what it had been fed before ++ canon(val(self))`, where canon(v) is the sequence of base-2^w digits of the VALUE, least "
          "significant first, without a leading zero digit (w = the type's storage word, 64 for Bvd and Bv). The fed sequence is therefore a function of the value alone: two vectors of one type that compare equal "
          "(C09: equal values) feed identical data whatever their lengths, spare capacity or (for Bv) inline/heap representation. Rests on the verified significant_bits (exact position of the top set bit) and, for Bv, "
          "on the verified get_int dispatch; the Hasher is modelled by an uninterpreted record `fed` and the assumption that <uN as Hash>::hash appends exactly that word (T1)." + DYN_NOTE),
    note=("Emitted as inherent generic methods hash<H: Hasher> (std's Hash trait has no contract hook). Assumed: <u8|u16|u32|u64 as Hash>::hash feeds one item equal to the word (T1). "
          "u128/usize word types: second engine only. " + TRUST_NOTE))
MANIFEST_TEXT["C11"] = dict(
    text=("Proof (native types u8, u16, u32, u64; storage words u8..u64): TryFrom<uN> for Bvf<I,N> (both the wide-word and the narrow-word branch; Err(NotEnoughCapacity) exactly when the integer has more significant bits than "
          "the capacity, otherwise length min(w, capacity), wf, VALUE == x), From<uN> for Bvd (one word, length w, value x), From<uN> for Bv (inline), TryFrom<&Bvf<I,N>> / TryFrom<&Bvd> / TryFrom<&Bv> for uN "
          "(Err exactly when significant_bits > w, otherwise the VALUE; no reachable panic, empty vectors included) are verified at value level, on top of the verified significant_bits, get_int readers and StaticCast; "
          "Bit <-> integer / bool conversions are verified (bit.unit). While writing these contracts the proof found D11 (Bvf::<I,0>::try_from panicked), repaired in /repo." + DYN_NOTE),
    note=("Not under contract (second engine only): u128 and usize as native types (no bit-vector vocabulary for them; Bvd's loop really accumulates only for u128), From<&[I]> for Bv, by-value / by-reference forwarders (the slice conversions TryFrom<&[J]> for Bvf and From<&[J]> for Bvd are verified, see C12). "
          "Assumed: {uN}::checked_shr / checked_shl / leading_zeros (T1, vstd's axioms for leading_zeros), A-size32 for TryFrom<uN> for Bvf (storage below 2^32 bits: the shift amount is cast to u32), the slice-level get_int where the slice word is at least as wide as the chunk (T2: unsafe align_to; the word-combining branch for narrower slice words is verified). " + TRUST_NOTE))
MANIFEST_TEXT["C12"] = dict(
    text=("Proof: TryFrom<&Bvf<I1,N1>> for Bvf<I2,N2> (any two word sizes), TryFrom<&Bvd> for Bvf<I,N> and From<&Bvf<I,N>> for Bvd are verified against the contract "
          "`Err(NotEnoughCapacity) exactly when the source is LONGER than the target capacity (whatever its value); otherwise Ok with the same length, the same bit at every index below len, "
          "storage beyond len zero (wf), and for Bvd exactly ceil(len/64) words`, on top of the verified chunk readers IArray::get_int/int_len of Bvf and Bvd (every word-size pair)." + DYN_NOTE),
    note=("Also verified: From<&Bv>/From<Bvd>/From<&Bvd>/From<&Bvf<J,N>> for Bv (inline exactly when the length / the source capacity fits 128 bits) and From<&Bv> for Bvd. TryFrom<&Bv> for Bvf<I,N> is verified too. TryFrom<&[J]> for Bvf<I,N> and From<&[J]> for Bvd (zeros + one set_int per element; every pair of word types) are verified: Err(NotEnoughCapacity) exactly when len * BITS exceeds a fixed capacity, otherwise element k occupies bits k*BITS..(k+1)*BITS. Not yet under contract (second engine only): the by-value forms (forwarders), From<&[I]> for Bv, new/into_inner round trip (new/into_inner themselves are verified, see C07). "
          "The slice-level int_len is verified for every pair of word types, and get_int / set_int are verified where the slice word is narrower than the chunk (word-combining / word-splitting loop of utils.rs; the dead unsafe arm is removed by R25 exactly as monomorphisation removes it). Where the slice word is at least as wide as the chunk the code is `unsafe { align_to }`, outside Verus: its contract stays trusted (T2) and is exercised only by the native fuzz harnesses. " + TRUST_NOTE))
MANIFEST_TEXT["C13"] = dict(
    text=("Proof: the real bodies of to_vec, from_bytes, read and write of Bvf<I,N> (I = u8..u64, symbolic N), Bvd and Bv, extracted from /repo on every run, are verified by Verus. "
          "to_vec: exactly ceil(len/8) bytes; Little: bit t of byte j is bit 8j+t of the vector, surplus bits of the top byte zero; Big: the same bytes reversed (`le_image`). "
          "from_bytes: Err(NotEnoughCapacity) exactly when 8*|bytes| exceeds a fixed capacity, otherwise Ok with length 8*|bytes|, well formed, and the storage is the little-endian image of the bytes (Big: of the reversed bytes); "
          "the four shift-and-or packing loops of Bvf, the two of Bvd (with its offset / last-word index arithmetic) are proved against one packing theory (spec/prelude/bytes_from.rs); Bv: inline exactly when 8*|bytes| <= 128. "
          "read (for an ARBITRARY reader satisfying the documented read_exact contract, mirror trait VRead): Ok exactly when the length fits a fixed capacity and the stream holds ceil(len/8) more bytes; then exactly those bytes are consumed, "
          "the result has exactly len bits, is well formed (so the surplus high bits of the most significant byte are DISCARDED: the D3 defect is a failing obligation of this unit), and bit i is bit i%8 of byte i/8 in little-endian order; "
          "an insufficient fixed capacity gives Err(InvalidInput) with nothing consumed, and no panic is reachable. write (arbitrary writer, mirror trait VWrite): on Ok the sink grew by exactly the to_vec image. "
          "The two round trips of the statement are proved as lemmas over these contracts (lemma_read_write_round_trip, lemma_from_bytes_to_vec in spec/prelude/io.rs)." + DYN_NOTE),
    note=("Rewrites specific to these units (logged per run): R26 `for (i, b) in E.iter().enumerate()[.rev()]` / `.rev().enumerate()` -> index loops over `0..E.len()` (std's meaning of the adapters on a slice iterator, T3); "
          "R25 keeps the live arm of `if size_of::<I>() == 1`; R27 `bytes.as_ref()` -> `bytes` at the instantiation B = &[u8] (the generic B: AsRef<[u8]> is verified for that one instantiation, which is also the one read() uses); "
          "R28 the bounds `R: std::io::Read` / `W: std::io::Write` -> mirror traits VRead / VWrite whose contracts are ASSUMED (T1-io: read_exact fills the buffer with the next bytes and consumes exactly those, or fails at end of input, no other I/O failure; "
          "write_all appends exactly the slice or fails), `reader.read_exact(&mut buf[..])` -> `reader.read_exact_vec(&mut buf)`, `std::io::Error::new(kind, e)` -> a stub that records the kind; R29 `&buf[..]` -> `buf.as_slice()`. "
          "Not under contract (second engine only): other instantiations of B (Vec<u8>, arrays), u128/usize storage words. A-size: |bytes| <= usize::MAX/8 (Bvf), 8*|bytes| + 64 <= usize::MAX/2 (Bvd, Bv). " + TRUST_NOTE))
MANIFEST_TEXT["C14"] = dict(
    text=("Proof, relative to ONE stated assumption about core::fmt (T4 below): the real bodies of Binary, Octal, LowerHex, UpperHex and Display for Bvf<I,N> (I = u8..u64, symbolic N, N = 0 included), Bvd and Bv, extracted from /repo on every run, "
          "are verified by Verus to call Formatter::pad_integral exactly once with (is_nonnegative = true, the prefix Rust uses for that radix: \"0b\", \"0o\", \"0x\", \"0x\", \"\", the MINIMAL digit string of the vector's value in that radix): "
          "binary/octal/hex digit k from the most significant end is the value of bits group k of the well-formed storage, no leading zero digit, \"0\" for the value zero and for empty vectors (is_bin_repr / is_oct_repr / is_hex_repr, lower and upper case); "
          "Display is verified at VALUE level: the digits are dec_digits(val(self)) most significant first (repeated division by ten on top of the verified div_rem, integer conversions and is_zero), \"0\" for zero, the loop terminates, "
          "and `expect`/`unwrap` are unreachable (this obligation found D12: Display for Bvf<I,0> panicked; repaired in /repo). The digit string depends only on the bits below len (value), not on length, implementation or word type. "
          "T4 (assumed, not checkable here): core::fmt::num formats every unsigned integer by calling the same Formatter::pad_integral with (true, the same prefix, the minimal digits of the integer), and pad_integral's output is a function of the formatter's "
          "flags and these three arguments only; under T4 the verified call trace IS `exactly the string Rust produces for an unsigned integer of the same value, under every combination of #, +, 0, width, fill and alignment`." + DYN_NOTE),
    note=("Formatter is a mirror type (R32: `fmt::Formatter` / `std::fmt::Formatter` resolve to spec/prelude/fmt.rs, whose pad_integral records its arguments in a ghost call trace); the trait impls are emitted as inherent methods fmt_binary, fmt_octal, ... (R19). "
          "Assumed std contracts (T1): String::with_capacity (empty), char::from_digit(d < 10, 10), `v.iter().rev().collect::<String>()` (R7 stub: the reversed sequence); vstd's own specifications are used for String::push/is_empty, Vec::push/truncate/len, str views and string literals. "
          "R33 `(quotient, remainder) = E;` -> `let verif_qr = E; quotient = verif_qr.0; remainder = verif_qr.1;` (destructuring assignment). A-size for Bvd/heap Bv: len + 64 <= usize::MAX/2; Bvf: capacity <= u32::MAX bits (inherited from TryFrom<u8>). "
          "What the second engine adds on every run: the end-to-end strings under 21 format specifications against Rust's formatting of the u128 value (this is where T4 is exercised). " + TRUST_NOTE))
MANIFEST_TEXT["C15"] = dict(
    text=("Proof: the real bodies of from_binary and from_hex of Bvf<I,N> (I = u8..u64, symbolic N), Bvd and Bv, extracted from /repo on every run, are verified by Verus over the string as a sequence of chars (vstd's string view): "
          "the accept set is exactly the strings of '0'/'1' (resp. ASCII hex digits of either case, `char::to_digit(16)` assumed: T1), the empty string included; on success the length is |s| (resp. 4|s|), the result is well formed and "
          "bit b is the character at index |s|-1-b (resp. bit b%4 of the digit at index |s|-1-b/4): most significant digit first; a string that fits and contains an offending character (non-ASCII included) yields InvalidFormat(i) with i the "
          "index of the FIRST such character; an all-valid string longer than a fixed capacity yields NotEnoughCapacity (a too-long string always yields Err); Bv: same contract without capacity limit, whatever implementation the byte length selects. "
          "The per-character accumulate-and-shift loops (into the word holding that digit position; Bvd with its offset arithmetic) are proved against a digit-packing theory parametric in the digit width (spec/prelude/digits_from.rs). "
          "NOT proved (second engine only): the last clause of the property, parse(format(v)) == v, because formatting is outside the verifier (C14)." + DYN_NOTE),
    note=("Rewrites specific to these units (logged per run): R26c `for (i, c) in string.chars().enumerate()` -> index loop over `0..string.unicode_len()` with `let c = string.get_char(i);` (std's meaning of chars().enumerate(): the i-th char, T3; "
          "vstd's exec string functions), R31 `string.chars().count()` -> `string.unicode_len()`, `string.as_ref().len()` -> `verif_str_len(string)` (T1: UTF-8 byte length >= number of chars, equal for ASCII), R27 `string.as_ref()` -> `string` "
          "at the instantiation S = &str. Not under contract: other instantiations of S (String), u128/usize storage words. A-size: |s| (resp. 4|s|) + 64 <= usize::MAX/2 for Bvd/Bv. " + TRUST_NOTE))
MANIFEST_TEXT["C17"] = dict(
    text=("Proof: the real bodies of BitIterator::{new, next, size_hint, count, last, nth, next_back, nth_back} (iter.rs), instantiated for Bvf<I,N>, Bvd and Bv, are verified against an abstract view "
          "`remaining()` = the bits range.start..range.end of the vector front to back, under the invariant start <= end <= len: next/next_back return and remove the first/last remaining bit, nth(n)/nth_back(n) return "
          "remaining[n] / remaining[len-1-n] and remove everything up to it (None and an EMPTY remainder when n >= remaining, for every n up to usize::MAX: no overflow is reachable), size_hint/count/last are exact and "
          "do not modify the iterator, the vector is never modified. Any interleaving of the calls therefore agrees with a slice iterator over the same bits (induction over the calls)." + DYN_NOTE),
    note=("Emitted as inherent methods of BitIterator<'a, T> for each concrete T (the std Iterator trait has no contract hook); `Self::Item` resolved to Bit (R21). The forwarders BitVector::iter and IntoIterator::into_iter for &Bvf, &Bvd, &Bv (one call to BitIterator::new each; emitted against the mirror trait VIntoIterator) are verified: "
          "the iterator starts with the whole vector remaining. Not under contract: std's default adapter methods. " + TRUST_NOTE))
MANIFEST_TEXT["C20"] = dict(
    text=("Proof (for the forms listed; exploration for the rest): every form of + - & | ^ funnels into a compound assignment `a op= &b`; those bodies are verified (C01, C04), and the forwarding forms are verified against "
          "the SAME contract as the assignment they forward to: `a op &b` and `&a op &b` (generic impl<T> instantiated at T = &Bvd, &Bvf<J,N>) for Bvd and Bvf left operands, `a op= b` by value (Bvd), Bv op= &Bvf / &Bvd / &Bv "
          "(dispatch on both operands), and the auto type end to end: `&a op &b` and `a op &b` on Bv (match on the left operand -> the generic form of Bvf<u64,2> / Bvd instantiated at T = &Bv -> Bvf/Bvd op= &Bv dispatching on the right operand -> the verified bodies). Shifts: `a <<= k`, `a >>= k` for Bvf, Bvd, Bv and the separately written `&bvd << k` / `&bvd >> k` bodies are verified against one contract (saturating for amounts >= len, any of the six "
          "amount types); `!a` for Bvf, &Bvf, Bvd, &Bvd (separate body), Bv. The forms of * / % are verified too for Bvf x Bvf (any two word sizes), Bvd x Bvd and (for / %) Bvd x Bvf: the by-value operand forms of `&a * &b`, `*=`, and all four receiver/operand forms of `/` and `%` plus `/=`, `%=` forward to the verified `&a * &b` / div_rem bodies and inherit their VALUE-level contract (generated units spec/units/mulforms.unit, divforms.unit). All contracts state the result over the whole abstract view and leave borrowed operands untouched (they are `&` parameters: Rust's type system, and "
          "the contracts mention only their old value). Exploration for the remaining forms: every owned/borrowed/assign form of + - * / % & | ^ << >> ! and the native-integer forms are compared against each other "
          "(identical length and bits, borrowed operands unchanged)." + DYN_NOTE),
    note=("Native-integer right operands of the compound assignments + - & | ^ are verified for Bvf, Bvd and Bv (x: u8..u64): same result as with a vector of length w and value x. Not under contract (second engine only): forms of * / % with a Bvd/Bv operand of a Bvf or with Bv on either side, the non-assigning native-integer forms, Bv's forms with a by-value or Bvf/Bvd right operand (the shift forwarders of Bvf, Bvd and Bv are verified). "
          "Assumed: derive(Clone) of Bvf/Bvd returns a structurally equal value (T1). " + TRUST_NOTE))
MANIFEST_TEXT["C01"] = dict(
    text=("Proof (add/sub): the real bodies of AddAssign/SubAssign<&Bvf<I2,N2>> for Bvf<I1,N1> (both the same-word-size branch and the re-chunking branch through get_int) are verified against the VALUE-level contract "
          "val(result) == (val(a) +/- val(b)) mod 2^len, len unchanged, storage beyond len zero, on top of verified contracts of the word primitives cadd/csub/wmul/mask and of the carry-chain/bridge lemmas (spec/prelude/value*.rs)." + DYN_NOTE),
    note=(COVER_BVF.replace("and the Bvd implementation (symbolic word count, spare capacity included), ", "") + "Also verified: Bvd += / -= &Bvd (two-step overflowing_add/sub carry chain, symbolic word count, spare capacity), Bvf += / -= &Bvd and Bvd += / -= &Bvf (operand re-chunked through get_int). Bv += / -= &Bvf/&Bvd/&Bv (dispatch on both operands) are verified too. MULTIPLICATION: the four schoolbook bodies (&Bvf*&Bvf any two word sizes, &Bvf*&Bvd, &Bvd*&Bvd, &Bvd*&Bvf) are verified against val(r) == (val(a)*val(b)) mod 2^len with a row/column invariant over exact integer equations (spec/prelude/value_mul.rs; the carry never overflows). Native right operands of += / -= (x: u8..u64; Bvf, Bvd, Bv: a temporary vector is built by the verified conversion and the verified body runs) are verified against val(r) == (val(a) +/- x) mod 2^len. Not yet under contract: u128/usize natives, by-value / assigning forwarders of * (covered only by the second engine). " + TRUST_NOTE))
MANIFEST_TEXT["C04"] = dict(
    text=("Proof: BitAnd/BitOr/BitXorAssign<&Bvf<I2,N2>> for Bvf<I1,N1> (both branches), the same three for Bvd with a &Bvd operand, Not for Bvf/&Bvf/Bvd are verified against the bit-by-bit contract with the right operand zero-extended and ignored beyond len; wf of the result is the 'no bit of b at index >= n influences later observations' clause." + DYN_NOTE),
    note=(COVER_BVF + "Also verified: Bvf op= &Bvd and Bvd op= &Bvf (operand read in chunks of the left word type through get_int). Bv op= &Bvf/&Bvd/&Bv and !Bv (dispatch) are verified too. Native right operands of &= |= ^= (x: u8..u64; Bvf, Bvd, Bv) are verified against the bits of x. Not yet under contract: u128/usize natives, Not for &Bv, by-value forwarders (covered only by the second engine). " + TRUST_NOTE))
for _p in ("C05", "C06", "C07", "C08", "C16", "C18", "C19"):
    MANIFEST_TEXT[_p]["text"] += DYN_NOTE
