"""Which units go into which generated file (group), for which instantiations, for which property."""

def G(name, prelude, items):
    return dict(name=name, prelude=prelude, items=items)

INT_METHODS = ["int.mask", "int.cadd", "int.csub", "int.wmul", "int.leading_zeros", "int.leading_ones",
               "int.trailing_zeros", "int.trailing_ones"]

def int_impl(mode_of):
    """impl Constants + impl Integer for {I}; mode_of(unit) -> 'verify' | 'stub'"""
    return [("decl", "int.constants")] + [(mode_of(u), u) for u in INT_METHODS]

BASE_DECLS = [("decl", "decl.Bit"), ("decl", "decl.Bvf"), ("decl", "decl.ConvertionError"), ("decl", "decl.Endianness")]

GROUPS = {}

GROUPS["int_prims"] = G("int_prims", ["base.rs", "word.rs", "word_std.rs", "word_lz_vstd.rs"],
    int_impl(lambda u: "verify"))

# word types per tier
WORDS_QUICK = ["u64", "u8"]
WORDS_ALL = ["u8", "u16", "u32", "u64", "u128", "usize"]

WORD_PRELUDE = ["base.rs", "word.rs", "word_std.rs", "word_lz_vstd.rs"]

def stub_int():
    return int_impl(lambda u: "stub")

BIT_CONV = [("verify", "bit.to_int"), ("verify", "bit.from_int")]
BIT_CONV_STUB = [("stub", "bit.to_int"), ("stub", "bit.from_int")]

BVF_CORE = ["bvf.new", "bvf.into_inner", "bvf.capacity", "bvf.cfbl", "bvf.mod2n", "bvf.with_capacity", "bvf.zeros", "bvf.ones",
            "bvf.len", "bvf.get", "bvf.set", "bvf.push", "bvf.pop", "bvf.resize"]

GROUPS["bvf_core"] = G("bvf_core", WORD_PRELUDE + ["bvf.rs"],
    BASE_DECLS + stub_int() + BIT_CONV + [("decl", "bvf.consts")] + [("verify", u) for u in BVF_CORE])

def stub(units): return [("stub", u) for u in units]
def verify(units): return [("verify", u) for u in units]

BVF_PRELUDE = WORD_PRELUDE + ["conv_std.rs", "bvf.rs"]
BVF_BASE = BASE_DECLS + stub_int() + BIT_CONV_STUB + [("decl", "bvf.consts")]

GROUPS["bvf_shift"] = G("bvf_shift", BVF_PRELUDE,
    BVF_BASE + stub(BVF_CORE) + verify(["bvf.shl_assign", "bvf.shr_assign"]))
