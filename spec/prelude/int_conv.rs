// A native integer {J} read as chunk 0 of a bit sequence whose bits at and beyond {J.bits} are zero is the value of the sequence
// (needs value.rs, value_word.rs for {J} under suffix {Y}, chunk.rs for ({I}, {J}))
pub proof fn lemma_int_of_low_bits_{I}_{J}(data: Seq<{I}>, len: int, x: {J})
    requires
        0 <= len <= data.len() * {I.bits},
        forall|b: int| {J.bits} <= b < len ==> !bit_at{X}(data, b),
        forall|t: nat| t < {J.bits} ==> #[trigger] wbit{Y}(x, t) == (t < len && bit_at{X}(data, t as int)),
    ensures x as nat == fval(|b: int| 0 <= b < len && bit_at{X}(data, b), len as nat)
{
    let g = |b: int| 0 <= b < len && bit_at{X}(data, b);
    lemma_word_val{Y}(x);
    assert forall|b: int| 0 <= b < {J.bits} implies #[trigger] wordf{Y}(x)(b) == g(b) by {
        assert(wbit{Y}(x, b as nat) == (b < len && bit_at{X}(data, b)));
    }
    lemma_fval_ext(wordf{Y}(x), g, {J.bits});
    if len <= {J.bits} {
        lemma_fval_zero_above(g, len as nat, {J.bits});
    } else {
        lemma_fval_zero_above(g, {J.bits}, len as nat);
    }
}
/// storage whose bit b (below cap) is bit b of the native integer x, x having no set bit at or beyond len: wf at length len, value x
pub proof fn lemma_int_value_{I}_{J}(data: Seq<{I}>, len: int, x: {J}, cap: int)
    requires
        cap == data.len() * {I.bits}, 0 <= len <= cap, len <= {J.bits},
        forall|b: int| 0 <= b < cap ==> #[trigger] bit_at{X}(data, b) == (b < {J.bits} && wbit{Y}(x, b as nat)),
        forall|t: nat| len <= t < {J.bits} ==> !wbit{Y}(x, t),
    ensures
        forall|b: int| len <= b < cap ==> !bit_at{X}(data, b),
        fval(|b: int| 0 <= b < len && bit_at{X}(data, b), len as nat) == x as nat,
{
    let g = |b: int| 0 <= b < len && bit_at{X}(data, b);
    lemma_word_val{Y}(x);
    assert forall|b: int| 0 <= b < len implies #[trigger] wordf{Y}(x)(b) == g(b) by {
        assert(bit_at{X}(data, b) == (b < {J.bits} && wbit{Y}(x, b as nat)));
    }
    lemma_fval_ext(wordf{Y}(x), g, len as nat);
    assert forall|b: int| len <= b < {J.bits} implies !#[trigger] wordf{Y}(x)(b) by { assert(!wbit{Y}(x, b as nat)); }
    lemma_fval_zero_above(wordf{Y}(x), len as nat, {J.bits});
    assert forall|b: int| len <= b < cap implies !bit_at{X}(data, b) by {
        if b < {J.bits} { assert(!wbit{Y}(x, b as nat)); }
    }
}
/// a vector of {J.bits} bits whose value is the native integer x has exactly the bits of x
pub proof fn lemma_int_bits_{I}_{J}(data: Seq<{I}>, x: {J})
    requires {J.bits} <= data.len() * {I.bits}, fval(|b: int| 0 <= b < {J.bits} && bit_at{X}(data, b), {J.bits}) == x as nat
    ensures forall|b: int| 0 <= b < {J.bits} ==> #[trigger] bit_at{X}(data, b) == wbit{Y}(x, b as nat)
{
    let g = |b: int| 0 <= b < {J.bits} && bit_at{X}(data, b);
    lemma_word_val{Y}(x);
    lemma_fval_injective(g, wordf{Y}(x), {J.bits});
    assert forall|b: int| 0 <= b < {J.bits} implies #[trigger] bit_at{X}(data, b) == wbit{Y}(x, b as nat) by {
        assert(g(b) == wordf{Y}(x)(b));
    }
}
