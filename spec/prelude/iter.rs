// BitIterator over {BT}: invariant and abstract view (the bits start..end of the vector, front to back)
impl{HG} BitIterator<'a, {BT}> {
    pub open spec fn inv(&self) -> bool { self.bv.wf() && self.range.start <= self.range.end <= self.bv.alen() }
    pub open spec fn remaining(&self) -> Seq<Bit> {
        Seq::new((self.range.end - self.range.start) as nat, |k: int| to_bit(self.bv.abit(self.range.start + k)))
    }
}
