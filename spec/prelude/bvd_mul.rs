// Final step of Bvd multiplication (needs value_mul.rs, bvd_val.rs)
pub proof fn lemma_bvd_mul_finish(a: &Bvd, mid: Seq<u64>, f: &Bvd, rv: nat, rw: Seq<u64>, q: int, n: nat)
    requires
        a.wf(), f.length == a.length, mid.len() == n, f.data@.len() == n, n == (a.length + 63) / 64, 0 <= q, n * 64 <= usize::MAX / 2,
        forall|b: int| 0 <= b < n * 64 ==> #[trigger] bit_at(f.data@, b) == (b < a.length && bit_at(mid, b)),
        words_val(mid, n) as int + q * pow2(64 * n) == (words_val(a.data@, n) * words_val(rw, n)) as int,
        words_val(rw, n) % pow2(a.length as nat) == rv % pow2(a.length as nat),
    ensures
        f.wf(),
        f.val() == (a.val() * rv) % pow2(a.length as nat),
{
    let len = a.length as nat;
    let kk = 64 * n;
    lemma_bvd_val_words(a, n);
    lemma_seq_val(mid, n);
    lemma_fval_mod(seqf(mid), len, kk);
    assert forall|b: int| 0 <= b < len implies #[trigger] f.bitf()(b) == seqf(mid)(b) by { assert(bit_at(f.data@, b) == (b < a.length && bit_at(mid, b))); }
    lemma_fval_ext(f.bitf(), seqf(mid), len);
    lemma_mul_final(words_val(mid, n), q as nat, n, len, words_val(a.data@, n), words_val(rw, n), rv);
}
/// words of a well-formed Bvd at or beyond ceil(len/64) are zero
pub proof fn lemma_bvd_spare_zero(v: &Bvd, k: int)
    requires v.wf(), (v.length + 63) / 64 <= k < v.data@.len()
    ensures v.data@[k] == 0u64
{
    assert forall|j: u64| j < 64 implies wbit(v.data@[k], j as nat) == wbit(0u64, j as nat) by {
        let b = k * 64 + j;
        lemma_divmod_at(k, j as int);
        assert(b / 64 == k && b % 64 == j as int);
        assert(!bit_at(v.data@, b));
        lemma_wbit_zero(j);
    }
    lemma_wbit_ext(v.data@[k], 0u64);
}
