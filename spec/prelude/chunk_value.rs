// value of an operand re-chunked into {J} words (needs value.rs, value_word.rs)
/// the operand re-chunked into {J} words (zero-extended): n chunk values
pub open spec fn chunk_words_{I}_{J}(data: Seq<{I}>, lim: int, n: nat) -> Seq<{J}> {
    Seq::new(n, |k: int| chunk_val_{I}_{J}(data, lim, k))
}
/// ... and their word value is the value of the low n*{J.bits} bits of the operand
pub proof fn lemma_chunk_words_val_{I}_{J}(data: Seq<{I}>, lim: int, n: nat)
    requires 0 <= lim <= data.len() * {I.bits}
    ensures words_val{Y}(chunk_words_{I}_{J}(data, lim, n), n) == fval(|b: int| 0 <= b < lim && bit_at{X}(data, b), {J.bits} * n)
{
    let cw = chunk_words_{I}_{J}(data, lim, n);
    let g = |b: int| 0 <= b < lim && bit_at{X}(data, b);
    lemma_seq_val{Y}(cw, n);
    assert forall|b: int| 0 <= b < {J.bits} * n implies #[trigger] seqf{Y}(cw)(b) == g(b) by {
        let k = b / {J.bits};
        let t = (b % {J.bits}) as nat;
        lemma_chunk_val_ok_{I}_{J}(data, lim, k);
        assert(cw[k] == chunk_val_{I}_{J}(data, lim, k));
        assert(wbit{Y}(cw[k], t) == (k * {J.bits} + t < lim && bit_at{X}(data, k * {J.bits} + t)));
    }
    lemma_fval_ext(seqf{Y}(cw), g, {J.bits} * n);
}
