// from_binary / from_hex: packing a digit string (digit width {W} bits: 1 = binary, 4 = hexadecimal) into storage words by repeated
// `data[j] = (data[j] << {W}) | digit`, digits visited from the most significant (index n-1 of the little-endian digit list `ds`) down to
// index 0, digit k going to word k / ({I.bits}/{W}). `p` = index of the last digit packed so far (p == n: nothing packed; p == 0: done).
// Same theory as spec/prelude/bytes_from.rs with the digit width as a parameter.
pub open spec fn dbit{S}(d: u8, t: nat) -> bool { (d >> (t as u8)) & 1 == 1 }
pub open spec fn dpw{X}{S}() -> int { {DPW}int }
pub open spec fn dk_start{X}{S}(j: int, p: int) -> int { if p > j * dpw{X}{S}() { p } else { j * dpw{X}{S}() } }
pub open spec fn dk_bit{X}{S}(ds: Seq<u8>, j: int, p: int, t: nat) -> bool {
    let s = dk_start{X}{S}(j, p) + (t as int) / {W};
    s < ds.len() && s < (j + 1) * dpw{X}{S}() && dbit{S}(ds[s], ((t as int) % {W}) as nat)
}
pub open spec fn dpacked{X}{S}(data: Seq<{I}>, ds: Seq<u8>, p: int) -> bool {
    forall|j: int, t: nat| 0 <= j < data.len() && t < {I.bits} ==> #[trigger] wbit{X}(data[j], t) == dk_bit{X}{S}(ds, j, p, t)
}
pub proof fn lemma_dpack_init{X}{S}(data: Seq<{I}>, ds: Seq<u8>)
    requires forall|j: int| 0 <= j < data.len() ==> data[j] == 0
    ensures dpacked{X}{S}(data, ds, ds.len() as int)
{
    assert forall|j: int, t: nat| 0 <= j < data.len() && t < {I.bits} implies #[trigger] wbit{X}(data[j], t) == dk_bit{X}{S}(ds, j, ds.len() as int, t) by {
        lemma_wbit_zero{X}(t as {I});
    }
}
/// shifting a digit into a word: bit t of (w << {W}) | d for a digit d < 2^{W}
pub proof fn lemma_shlw_or{X}{S}(w: {I}, d: u8, t: {I})
    requires t < {I.bits}, (d as int) < {WP}
    ensures wbit{X}((w << {W}) | (d as {I}), t as nat) == (if t < {W} { dbit{S}(d, t as nat) } else { wbit{X}(w, (t - {W}) as nat) })
{
    assert(((((w << {W}) | (d as {I})) >> t) & 1 == 1) == (if t < {W} { (d >> (t as u8)) & 1 == 1 } else { (w >> ((t - {W}) as {I})) & 1 == 1 })) by(bit_vector)
        requires t < {I.bits}, d < {WP};
}
pub proof fn lemma_dpack_step{X}{S}(d0: Seq<{I}>, d1: Seq<{I}>, ds: Seq<u8>, p: int)
    requires
        1 <= p <= ds.len(), dpacked{X}{S}(d0, ds, p), (p - 1) / dpw{X}{S}() < d0.len(), (ds[p - 1] as int) < {WP},
        d1 == d0.update((p - 1) / dpw{X}{S}(), (d0[(p - 1) / dpw{X}{S}()] << {W}) | (ds[p - 1] as {I})),
    ensures dpacked{X}{S}(d1, ds, p - 1)
{
    let q = dpw{X}{S}();
    let j0 = (p - 1) / q;
    vstd::arithmetic::div_mod::lemma_fundamental_div_mod(p - 1, q);
    assert(j0 * q <= p - 1 < (j0 + 1) * q);
    assert forall|j: int, t: nat| 0 <= j < d1.len() && t < {I.bits} implies #[trigger] wbit{X}(d1[j], t) == dk_bit{X}{S}(ds, j, p - 1, t) by {
        assert(wbit{X}(d0[j], t) == dk_bit{X}{S}(ds, j, p, t));
        if j == j0 {
            lemma_shlw_or{X}{S}(d0[j0], ds[p - 1], t as {I});
            assert(dk_start{X}{S}(j0, p) == p && dk_start{X}{S}(j0, p - 1) == p - 1);
            if t >= {W} {
                let u = (t - {W}) as nat;
                assert(wbit{X}(d0[j0], u) == dk_bit{X}{S}(ds, j0, p, u));
                assert((t as int) / {W} == (u as int) / {W} + 1 && (t as int) % {W} == (u as int) % {W}) by {
                    vstd::arithmetic::div_mod::lemma_fundamental_div_mod(u as int, {W});
                    vstd::arithmetic::div_mod::lemma_fundamental_div_mod_converse(t as int, {W}, (u as int) / {W} + 1, (u as int) % {W});
                }
            } else {
                assert((t as int) / {W} == 0 && (t as int) % {W} == t) by {
                    vstd::arithmetic::div_mod::lemma_fundamental_div_mod_converse(t as int, {W}, 0, t as int);
                }
            }
        } else if j < j0 {
            assert((j + 1) * q <= j0 * q);
        } else {
            assert(j * q >= (j0 + 1) * q);
        }
    }
}
/// all digits packed: bit b of the storage is bit b % {W} of digit b / {W}, and every bit beyond {W}*n is zero
pub proof fn lemma_dpack_done{X}{S}(data: Seq<{I}>, ds: Seq<u8>)
    requires dpacked{X}{S}(data, ds, 0), ds.len() * {W} <= data.len() * {I.bits}
    ensures
        forall|b: int| 0 <= b < data.len() * {I.bits} ==> #[trigger] bit_at{X}(data, b) == (b < ds.len() * {W} && dbit{S}(ds[b / {W}], (b % {W}) as nat)),
{
    let n = ds.len() as int;
    let dq = dpw{X}{S}();
    assert(dq * {W} == {I.bits});
    assert forall|b: int| 0 <= b < data.len() * {I.bits} implies #[trigger] bit_at{X}(data, b) == (b < n * {W} && dbit{S}(ds[b / {W}], (b % {W}) as nat)) by {
        let j = b / {I.bits};
        let t = (b % {I.bits}) as nat;
        vstd::arithmetic::div_mod::lemma_fundamental_div_mod(b, {I.bits});
        assert(0 <= j < data.len());
        assert(wbit{X}(data[j], t) == dk_bit{X}{S}(ds, j, 0, t));
        assert(dk_start{X}{S}(j, 0) == j * dq);
        let q = (t as int) / {W};
        let r = (t as int) % {W};
        vstd::arithmetic::div_mod::lemma_fundamental_div_mod(t as int, {W});
        assert(b == {W} * (j * dq + q) + r);
        vstd::arithmetic::div_mod::lemma_fundamental_div_mod_converse(b, {W}, j * dq + q, r);
        assert(q < dq);
    }
}
/// index identity of the dynamic implementation: with n + offset == l * q (q digits per word), digit k = n-1-i goes to word l-1-(i+offset)/q == k/q
pub proof fn lemma_dpack_index{X}{S}(l: int, k: int)
    requires 0 <= k < l * dpw{X}{S}()
    ensures (l * dpw{X}{S}() - 1 - k) / dpw{X}{S}() == l - 1 - k / dpw{X}{S}()
{
    let q = dpw{X}{S}();
    vstd::arithmetic::div_mod::lemma_fundamental_div_mod(k, q);
    vstd::arithmetic::div_mod::lemma_fundamental_div_mod_converse(l * q - 1 - k, q, l - 1 - k / q, q - 1 - k % q);
}
pub proof fn lemma_dpack_offset{X}{S}(n: int)
    requires 0 <= n
    ensures n + (dpw{X}{S}() - n % dpw{X}{S}()) % dpw{X}{S}() == ((n + dpw{X}{S}() - 1) / dpw{X}{S}()) * dpw{X}{S}()
{
    let q = dpw{X}{S}();
    vstd::arithmetic::div_mod::lemma_fundamental_div_mod(n, q);
    let a = n / q;
    let r = n % q;
    if r == 0 {
        assert((q - r) % q == 0) by { vstd::arithmetic::div_mod::lemma_fundamental_div_mod_converse(q - r, q, 1, 0); }
        vstd::arithmetic::div_mod::lemma_fundamental_div_mod_converse(n + q - 1, q, a, q - 1);
    } else {
        assert((q - r) % q == q - r) by { vstd::arithmetic::div_mod::lemma_fundamental_div_mod_converse(q - r, q, 0, q - r); }
        vstd::arithmetic::div_mod::lemma_fundamental_div_mod_converse(n + q - 1, q, a + 1, r - 1);
    }
}
/// the three ways of writing the step are the same word: a digit below 2^{W} cannot overlap the shifted word, and adding it cannot overflow
pub proof fn lemma_shlw_forms{X}{S}(w: {I}, d: u8)
    requires (d as int) < {WP}
    ensures
        (w << {W}) ^ (d as {I}) == (w << {W}) | (d as {I}),
        (w << {W}) as int + (d as {I}) as int <= {I.max} as int,
        ((w << {W}) as int + (d as {I}) as int) as {I} == (w << {W}) | (d as {I}),
{
    assert((w << {W}) ^ (d as {I}) == (w << {W}) | (d as {I})) by(bit_vector) requires d < {WP};
    assert(add(w << {W}, d as {I}) == (w << {W}) | (d as {I})) by(bit_vector) requires d < {WP};
    assert((w << {W}) <= {I.max} - ({WP} - 1)) by(bit_vector);
}
/// ... for every word at once (placed before the statement, so that `+` raises no overflow obligation)
pub proof fn lemma_shlw_room{X}{S}()
    ensures forall|w: {I}| #[trigger] (w << {W}) <= {I.max} - ({WP} - 1)
{
    assert forall|w: {I}| #[trigger] (w << {W}) <= {I.max} - ({WP} - 1) by {
        assert((w << {W}) <= {I.max} - ({WP} - 1)) by(bit_vector);
    }
}
