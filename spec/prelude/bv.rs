// Abstract view of Bv (auto.rs): the enum of an inline Bvf<u64, 2> and a heap Bvd. Needs bvf.rs and bvd.rs for u64.
impl Bv {
    pub open spec fn wf(&self) -> bool {
        match self { Bv::Fixed(b) => b.wf(), Bv::Dynamic(b) => b.wf() }
    }
    /// length and bit i of whichever representation is active
    pub open spec fn slen(&self) -> usize {
        match self { Bv::Fixed(b) => b.length, Bv::Dynamic(b) => b.length }
    }
    pub open spec fn sbit(&self, i: int) -> bool {
        match self { Bv::Fixed(b) => bit_at{X}(b.data@, i), Bv::Dynamic(b) => bit_at{X}(b.data@, i) }
    }
    /// capacity in bits
    pub open spec fn scap(&self) -> int {
        match self { Bv::Fixed(b) => 128int, Bv::Dynamic(b) => (b.data@.len() * 64) as int }
    }
    pub open spec fn is_fixed(&self) -> bool { self is Fixed }
    /// growing to l bits is within A-size
    pub open spec fn grow_ok(&self, l: int) -> bool { l <= self.scap() || len_ok(l) }
}
impl Bv {
    pub open spec fn alen(&self) -> usize { self.slen() }
    pub open spec fn abit(&self, i: int) -> bool { self.sbit(i) }
}
impl Bv {
    pub open spec fn is_sig(&self, r: int) -> bool {
        &&& 0 <= r <= self.slen()
        &&& forall|i: int| r <= i < self.slen() ==> !self.sbit(i)
        &&& r > 0 ==> self.sbit(r - 1)
    }
}
