// Word-level vocabulary for the storage word type {I} ({I.bits} bits). Lemmas are proved in this file.

pub open spec fn mask_spec{X}(k: nat) -> {I} {
    if k < {I.bits} { ((1{I} << (k as {I})) - 1) as {I} } else { {I}::MAX }
}
/// bit j of a machine word
pub open spec fn wbit{X}(w: {I}, j: nat) -> bool { (w >> (j as {I})) & 1 == 1 }
/// bit i of a sequence of words, little-endian word order
pub open spec fn bit_at{X}(data: Seq<{I}>, i: int) -> bool { wbit{X}(data[i / {I.bits}], (i % {I.bits}) as nat) }

pub proof fn lemma_wbit_zero{X}(j: {I})
    requires j < {I.bits}
    ensures !wbit{X}(0{I}, j as nat)
{
    assert((0{I} >> j) & 1 == 0) by(bit_vector);
}
pub proof fn lemma_wbit_max{X}(j: {I})
    requires j < {I.bits}
    ensures wbit{X}({I}::MAX, j as nat)
{
    assert(({I.max} >> j) & 1 == 1) by(bit_vector) requires j < {I.bits};
}
pub proof fn lemma_wbit_ext{X}(a: {I}, b: {I})
    requires forall|j: {I}| j < {I.bits} ==> wbit{X}(a, j as nat) == wbit{X}(b, j as nat)
    ensures a == b
{
    @FORBITS{I}{ }{assert(wbit{X}(a, #{I} as nat) == wbit{X}(b, #{I} as nat));}@
    assert(a == b) by(bit_vector)
        requires @FORBITS{I}{, }{(((a >> #) & 1) == 1) == (((b >> #) & 1) == 1)}@;
}
pub proof fn lemma_mask_ge1{X}(l: {I})
    requires l < {I.bits}
    ensures (1{I} << l) >= 1
{
    assert((1{I} << l) >= 1) by(bit_vector) requires l < {I.bits};
}
pub proof fn lemma_and_mask{X}(w: {I}, k: {I}, j: {I})
    requires k <= {I.bits}, j < {I.bits}
    ensures wbit{X}(w & mask_spec{X}(k as nat), j as nat) == (j < k && wbit{X}(w, j as nat))
{
    if k < {I.bits} {
        assert(((w & (((1{I} << k) - 1) as {I})) >> j) & 1 == (if j < k { (w >> j) & 1 } else { 0 })) by(bit_vector)
            requires k < {I.bits}, j < {I.bits};
    } else {
        assert(w & {I.max} == w) by(bit_vector);
    }
}
pub proof fn lemma_and_notmask{X}(w: {I}, k: {I}, j: {I})
    requires k <= {I.bits}, j < {I.bits}
    ensures wbit{X}(w & !mask_spec{X}(k as nat), j as nat) == (j >= k && wbit{X}(w, j as nat))
{
    if k < {I.bits} {
        assert(((w & !(((1{I} << k) - 1) as {I})) >> j) & 1 == (if j >= k { (w >> j) & 1 } else { 0 })) by(bit_vector)
            requires k < {I.bits}, j < {I.bits};
    } else {
        assert(((w & !{I.max}) >> j) & 1 == 0) by(bit_vector);
    }
}
pub proof fn lemma_wbit_or{X}(a: {I}, b: {I}, j: {I})
    requires j < {I.bits}
    ensures wbit{X}(a | b, j as nat) == (wbit{X}(a, j as nat) || wbit{X}(b, j as nat))
{
    assert((((a | b) >> j) & 1 == 1) == (((a >> j) & 1 == 1) || ((b >> j) & 1 == 1))) by(bit_vector);
}
pub proof fn lemma_wbit_and{X}(a: {I}, b: {I}, j: {I})
    requires j < {I.bits}
    ensures wbit{X}(a & b, j as nat) == (wbit{X}(a, j as nat) && wbit{X}(b, j as nat))
{
    assert((((a & b) >> j) & 1 == 1) == (((a >> j) & 1 == 1) && ((b >> j) & 1 == 1))) by(bit_vector);
}
pub proof fn lemma_wbit_xor{X}(a: {I}, b: {I}, j: {I})
    requires j < {I.bits}
    ensures wbit{X}(a ^ b, j as nat) == (wbit{X}(a, j as nat) != wbit{X}(b, j as nat))
{
    assert((((a ^ b) >> j) & 1 == 1) == (((a >> j) & 1 == 1) != ((b >> j) & 1 == 1))) by(bit_vector);
}
pub proof fn lemma_wbit_not{X}(a: {I}, j: {I})
    requires j < {I.bits}
    ensures wbit{X}(!a, j as nat) == !wbit{X}(a, j as nat)
{
    assert((((!a) >> j) & 1 == 1) == !((a >> j) & 1 == 1)) by(bit_vector) requires j < {I.bits};
}
pub proof fn lemma_wbit_shl{X}(a: {I}, s: {I}, j: {I})
    requires j < {I.bits}, s < {I.bits}
    ensures wbit{X}(a << s, j as nat) == (j >= s && wbit{X}(a, (j - s) as nat))
{
    assert((((a << s) >> j) & 1 == 1) == (j >= s && ((a >> ((j - s) as {I})) & 1 == 1))) by(bit_vector)
        requires j < {I.bits}, s < {I.bits};
}
pub proof fn lemma_wbit_shr{X}(a: {I}, s: {I}, j: {I})
    requires j < {I.bits}, s < {I.bits}
    ensures wbit{X}(a >> s, j as nat) == (j + s < {I.bits} && wbit{X}(a, (j + s) as nat))
{
    assert((((a >> s) >> j) & 1 == 1) == (j + s < {I.bits} && ((a >> ((j + s) as {I})) & 1 == 1))) by(bit_vector)
        requires j < {I.bits}, s < {I.bits};
}
pub proof fn lemma_wbit_one{X}(j: {I})
    requires j < {I.bits}
    ensures wbit{X}(1{I}, j as nat) == (j == 0)
{
    assert(((1{I} >> j) & 1 == 1) == (j == 0)) by(bit_vector) requires j < {I.bits};
}
pub proof fn lemma_and1{X}(w: {I})
    ensures (w & 1) == 0 || (w & 1) == 1, ((w & 1) == 1) == wbit{X}(w, 0)
{
    assert((w & 1) == 0 || (w & 1) == 1) by(bit_vector);
    assert(((w & 1) == 1) == (((w >> 0) & 1) == 1)) by(bit_vector);
}

// read a chunk: bit j of ((w >> s) & mask(l)) is bit s+j of w for j<l, else 0
pub proof fn lemma_chunk_read{X}(w: {I}, s: {I}, l: {I}, j: {I})
    requires s < {I.bits}, 1 <= l <= {I.bits}, s + l <= {I.bits}, j < {I.bits}
    ensures wbit{X}((w >> s) & mask_spec{X}(l as nat), j as nat) == (j < l && wbit{X}(w, (s + j) as nat))
{
    if l < {I.bits} {
        assert((((w >> s) & (((1{I} << l) - 1) as {I})) >> j) & 1 == (if j < l { (w >> ((s + j) as {I})) & 1 } else { 0 })) by(bit_vector)
            requires s < {I.bits}, 1 <= l < {I.bits}, s + l <= {I.bits}, j < {I.bits};
    } else {
        assert(s == 0);
        assert(((w >> s) & {I.max}) == w) by(bit_vector) requires s == 0;
    }
}
// write a chunk: t' = (t & !(mask(l) << p)) | (d << p), where only the low l bits of d count
pub proof fn lemma_chunk_write{X}(t: {I}, d: {I}, p: {I}, l: {I}, j: {I})
    requires p < {I.bits}, 1 <= l <= {I.bits}, p + l <= {I.bits}, j < {I.bits}
    ensures wbit{X}((t & !(mask_spec{X}(l as nat) << p)) | ((d & mask_spec{X}(l as nat)) << p), j as nat)
        == (if p <= j < p + l { wbit{X}(d, (j - p) as nat) } else { wbit{X}(t, j as nat) })
{
    if l < {I.bits} {
        assert((((t & !((((1{I} << l) - 1) as {I}) << p)) | ((d & (((1{I} << l) - 1) as {I})) << p)) >> j) & 1
            == (if p <= j && j < p + l { (d >> ((j - p) as {I})) & 1 } else { (t >> j) & 1 })) by(bit_vector)
            requires p < {I.bits}, 1 <= l < {I.bits}, p + l <= {I.bits}, j < {I.bits};
    } else {
        assert(p == 0);
        assert((((t & !({I.max} << p)) | ((d & {I.max}) << p)) >> j) & 1 == (d >> j) & 1) by(bit_vector) requires p == 0, j < {I.bits};
    }
}
pub proof fn lemma_chunk_clear{X}(t: {I}, p: {I}, l: {I}, j: {I})
    requires p < {I.bits}, 1 <= l <= {I.bits}, p + l <= {I.bits}, j < {I.bits}
    ensures wbit{X}(t & !(mask_spec{X}(l as nat) << p), j as nat) == (if p <= j < p + l { false } else { wbit{X}(t, j as nat) })
{
    if l < {I.bits} {
        assert(((t & !((((1{I} << l) - 1) as {I}) << p)) >> j) & 1
            == (if p <= j && j < p + l { 0 } else { (t >> j) & 1 })) by(bit_vector)
            requires p < {I.bits}, 1 <= l < {I.bits}, p + l <= {I.bits}, j < {I.bits};
    } else {
        assert(p == 0);
        assert(((t & !({I.max} << p)) >> j) & 1 == 0) by(bit_vector) requires p == 0, j < {I.bits};
    }
}
pub proof fn lemma_mask_idem{X}(x: {I}, l: {I})
    requires l <= {I.bits}
    ensures (x & mask_spec{X}(l as nat)) & mask_spec{X}(l as nat) == x & mask_spec{X}(l as nat)
{
    if l < {I.bits} {
        assert((x & (((1{I} << l) - 1) as {I})) & (((1{I} << l) - 1) as {I}) == x & (((1{I} << l) - 1) as {I})) by(bit_vector);
    } else {
        assert((x & {I.max}) & {I.max} == x & {I.max}) by(bit_vector);
    }
}
pub proof fn lemma_and_mask_low{X}(d: {I}, l: {I}, j: {I})
    requires 1 <= l <= {I.bits}, j < l
    ensures wbit{X}(d & mask_spec{X}(l as nat), j as nat) == wbit{X}(d, j as nat)
{
    lemma_and_mask{X}(d, l, j);
}
// or a chunk into a zero region
pub proof fn lemma_or_zero_chunk{X}(t: {I}, d: {I}, p: {I}, l: {I}, j: {I})
    requires p < {I.bits}, 1 <= l <= {I.bits}, p + l <= {I.bits}, j < {I.bits},
        forall|k: {I}| p <= k < p + l ==> !wbit{X}(t, k as nat),
    ensures wbit{X}(t | ((d & mask_spec{X}(l as nat)) << p), j as nat)
        == (if p <= j < p + l { wbit{X}(d, (j - p) as nat) } else { wbit{X}(t, j as nat) })
{
    let dm = d & mask_spec{X}(l as nat);
    lemma_wbit_or{X}(t, dm << p, j);
    lemma_wbit_shl{X}(dm, p, j);
    if p <= j < p + l {
        assert(!wbit{X}(t, j as nat));
        lemma_and_mask{X}(d, l, (j - p) as {I});
    } else if j >= p {
        lemma_and_mask{X}(d, l, (j - p) as {I});
    }
}

// ---- run lengths inside one word
pub open spec fn is_lz{X}(w: {I}, r: int) -> bool {
    &&& 0 <= r <= {I.bits}
    &&& forall|j: nat| {I.bits} - r <= j < {I.bits} ==> !wbit{X}(w, j)
    &&& r < {I.bits} ==> wbit{X}(w, ({I.bits} - 1 - r) as nat)
}
pub open spec fn is_tz{X}(w: {I}, r: int) -> bool {
    &&& 0 <= r <= {I.bits}
    &&& forall|j: nat| j < r ==> !wbit{X}(w, j)
    &&& r < {I.bits} ==> wbit{X}(w, r as nat)
}
pub proof fn lemma_lz_full{X}(w: {I}, r: int)
    requires is_lz{X}(w, r)
    ensures (w == 0) == (r == {I.bits})
{
    if r == {I.bits} {
        assert forall|j: {I}| j < {I.bits} implies wbit{X}(w, j as nat) == wbit{X}(0{I}, j as nat) by { lemma_wbit_zero{X}(j); }
        lemma_wbit_ext{X}(w, 0{I});
    } else {
        lemma_wbit_zero{X}(({I.bits} - 1 - r) as {I});
    }
}
pub proof fn lemma_tz_full{X}(w: {I}, r: int)
    requires is_tz{X}(w, r)
    ensures (w == 0) == (r == {I.bits})
{
    if r == {I.bits} {
        assert forall|j: {I}| j < {I.bits} implies wbit{X}(w, j as nat) == wbit{X}(0{I}, j as nat) by { lemma_wbit_zero{X}(j); }
        lemma_wbit_ext{X}(w, 0{I});
    } else {
        lemma_wbit_zero{X}(r as {I});
    }
}

// index arithmetic of a chunk [a, a+l) that stays inside one word, copied from/to [b, b+l).
// (explicit div/mod proofs: left to Z3's own div/mod reasoning these were the unstable queries of the whole development)
/// q * W + r with 0 <= r < W has quotient q and remainder r (explicit, so that no caller depends on Z3's own div/mod reasoning)
pub proof fn lemma_divmod_at{X}(q: int, r: int)
    requires 0 <= r < {I.bits}
    ensures (q * {I.bits} + r) / {I.bits} == q, (q * {I.bits} + r) % {I.bits} == r
{
    vstd::arithmetic::div_mod::lemma_fundamental_div_mod_converse(q * {I.bits} + r, {I.bits}, q, r);
}
pub proof fn lemma_same_word{X}(a: int, k: int)
    requires 0 <= a, 0 <= k, a % {I.bits} + k < {I.bits}
    ensures (a + k) / {I.bits} == a / {I.bits}, (a + k) % {I.bits} == a % {I.bits} + k
{
    vstd::arithmetic::div_mod::lemma_fundamental_div_mod(a, {I.bits});
    vstd::arithmetic::div_mod::lemma_fundamental_div_mod_converse(a + k, {I.bits}, a / {I.bits}, a % {I.bits} + k);
}
pub proof fn lemma_chunk_idx{X}(i: int, a: int, b: int, l: int)
    requires 0 <= a, 0 <= b, 1 <= l, a <= i < a + l, a % {I.bits} + l <= {I.bits}, b % {I.bits} + l <= {I.bits}
    ensures
        i / {I.bits} == a / {I.bits}, i % {I.bits} == a % {I.bits} + (i - a),
        (b + (i - a)) / {I.bits} == b / {I.bits}, (b + (i - a)) % {I.bits} == b % {I.bits} + (i - a),
{
    lemma_same_word{X}(a, i - a);
    lemma_same_word{X}(b, i - a);
}
pub proof fn lemma_chunk_idx1{X}(i: int, a: int, l: int)
    requires 0 <= a, 1 <= l, a % {I.bits} + l <= {I.bits}, 0 <= i
    ensures
        (a <= i < a + l) ==> (i / {I.bits} == a / {I.bits} && i % {I.bits} == a % {I.bits} + (i - a)),
        (i / {I.bits} == a / {I.bits}) ==> ((a <= i < a + l) == (a % {I.bits} <= i % {I.bits} < a % {I.bits} + l)),
{
    if a <= i < a + l { lemma_same_word{X}(a, i - a); }
    vstd::arithmetic::div_mod::lemma_fundamental_div_mod(a, {I.bits});
    vstd::arithmetic::div_mod::lemma_fundamental_div_mod(i, {I.bits});
    if i / {I.bits} == a / {I.bits} {
        assert(i - a == i % {I.bits} - a % {I.bits});
    }
}
// a chunk of l bits ending just below index x, with l <= (x-1) % WB + 1, stays inside the word holding x-1
pub proof fn lemma_top_chunk{X}(x: int, l: int)
    requires x >= 1, 1 <= l <= (x - 1) % {I.bits} + 1
    ensures x - l >= 0, (x - l) % {I.bits} + l <= {I.bits}, (x - l) / {I.bits} == (x - 1) / {I.bits},
{
    let y = x - 1;
    vstd::arithmetic::div_mod::lemma_fundamental_div_mod(y, {I.bits});
    vstd::arithmetic::div_mod::lemma_fundamental_div_mod_converse(x - l, {I.bits}, y / {I.bits}, y % {I.bits} + 1 - l);
}
// (w << 1) | c  with c in {0,1}: bit 0 is c, bit j>0 is bit j-1 of w
pub proof fn lemma_shl1_or{X}(w: {I}, cw: {I}, c: bool)
    requires cw == (if c { 1{I} } else { 0{I} })
    ensures forall|j: nat| j < {I.bits} ==> #[trigger] wbit{X}((w << 1) | cw, j) == (if j == 0 { c } else { wbit{X}(w, (j - 1) as nat) })
{
    assert forall|j: nat| j < {I.bits} implies #[trigger] wbit{X}((w << 1) | cw, j) == (if j == 0 { c } else { wbit{X}(w, (j - 1) as nat) }) by {
        let ju = j as {I};
        lemma_wbit_or{X}(w << 1, cw, ju);
        lemma_wbit_shl{X}(w, 1, ju);
        lemma_wbit_one{X}(ju); lemma_wbit_zero{X}(ju);
    }
}
// (w >> 1) | (c << p): bit p is c (provided bit p+1.. of w are zero), bit j<p is bit j+1 of w
pub proof fn lemma_shr1_or{X}(w: {I}, cw: {I}, c: bool, p: {I})
    requires cw == (if c { 1{I} } else { 0{I} }), p < {I.bits}
    ensures forall|j: nat| j < {I.bits} ==> #[trigger] wbit{X}((w >> 1) | (cw << p), j) == ((j + 1 < {I.bits} && wbit{X}(w, j + 1)) || (j == p && c))
{
    assert forall|j: nat| j < {I.bits} implies #[trigger] wbit{X}((w >> 1) | (cw << p), j) == ((j + 1 < {I.bits} && wbit{X}(w, j + 1)) || (j == p && c)) by {
        let ju = j as {I};
        lemma_wbit_or{X}(w >> 1, cw << p, ju);
        lemma_wbit_shr{X}(w, 1, ju);
        lemma_wbit_shl{X}(cw, p, ju);
        if ju >= p { lemma_wbit_one{X}((ju - p) as {I}); lemma_wbit_zero{X}((ju - p) as {I}); }
    }
}
pub proof fn lemma_not_zero_max{X}(v: {I})
    ensures (!v == 0) == (v == {I}::MAX), (!v == {I}::MAX) == (v == 0)
{
    assert((!v == 0) == (v == {I.max})) by(bit_vector);
    assert((!v == {I.max}) == (v == 0)) by(bit_vector);
}
pub proof fn lemma_word_zero_bits{X}(w: {I})
    ensures (w == 0) == (forall|j: nat| j < {I.bits} ==> !wbit{X}(w, j))
{
    if w == 0 {
        assert forall|j: nat| j < {I.bits} implies !wbit{X}(w, j) by { lemma_wbit_zero{X}(j as {I}); }
    }
    if forall|j: nat| j < {I.bits} ==> !wbit{X}(w, j) {
        assert forall|j: {I}| j < {I.bits} implies wbit{X}(w, j as nat) == wbit{X}(0{I}, j as nat) by { lemma_wbit_zero{X}(j); }
        lemma_wbit_ext{X}(w, 0{I});
    }
}
// funnel shift: (w1 >> s) | (w2 << (WB - s)), 0 < s < WB
pub proof fn lemma_funnel{X}(w1: {I}, w2: {I}, s: {I}, j: {I})
    requires 0 < s < {I.bits}, j < {I.bits}
    ensures wbit{X}((w1 >> s) | (w2 << (({I.bits} - s) as {I})), j as nat) ==
        (if j + s < {I.bits} { wbit{X}(w1, (j + s) as nat) } else { wbit{X}(w2, (j + s - {I.bits}) as nat) })
{
    lemma_wbit_or{X}(w1 >> s, w2 << (({I.bits} - s) as {I}), j);
    lemma_wbit_shr{X}(w1, s, j);
    lemma_wbit_shl{X}(w2, ({I.bits} - s) as {I}, j);
}
// index of bit s + b in terms of word/offset coordinates
pub proof fn lemma_add_idx{X}(s: int, b: int)
    requires 0 <= s, 0 <= b
    ensures
        b % {I.bits} + s % {I.bits} < {I.bits} ==> ((s + b) / {I.bits} == s / {I.bits} + b / {I.bits} && (s + b) % {I.bits} == b % {I.bits} + s % {I.bits}),
        b % {I.bits} + s % {I.bits} >= {I.bits} ==> ((s + b) / {I.bits} == s / {I.bits} + b / {I.bits} + 1 && (s + b) % {I.bits} == b % {I.bits} + s % {I.bits} - {I.bits}),
{
    vstd::arithmetic::div_mod::lemma_fundamental_div_mod(s, {I.bits});
    vstd::arithmetic::div_mod::lemma_fundamental_div_mod(b, {I.bits});
    let qs = s / {I.bits}; let rs = s % {I.bits}; let qb = b / {I.bits}; let rb = b % {I.bits};
    if rb + rs < {I.bits} {
        assert(s + b == (qs + qb) * {I.bits} + (rb + rs)) by(nonlinear_arith) requires s == {I.bits} * qs + rs, b == {I.bits} * qb + rb;
        lemma_divmod_at{X}(qs + qb, rb + rs);
    } else {
        assert(s + b == (qs + qb + 1) * {I.bits} + (rb + rs - {I.bits})) by(nonlinear_arith) requires s == {I.bits} * qs + rs, b == {I.bits} * qb + rb;
        lemma_divmod_at{X}(qs + qb + 1, rb + rs - {I.bits});
    }
}
// every bit pattern is the pattern of some word
pub proof fn lemma_bits_to_word{X}(p: spec_fn(nat) -> bool, n: nat) -> (v: {I})
    requires n <= {I.bits}
    ensures forall|t: nat| t < {I.bits} ==> #[trigger] wbit{X}(v, t) == (t < n && p(t))
    decreases n
{
    if n == 0 {
        assert forall|t: nat| t < {I.bits} implies #[trigger] wbit{X}(0{I}, t) == (t < n && p(t)) by { lemma_wbit_zero{X}(t as {I}); }
        0{I}
    } else {
        let v0 = lemma_bits_to_word{X}(p, (n - 1) as nat);
        let b: {I} = if p((n - 1) as nat) { 1{I} } else { 0{I} };
        let s = (n - 1) as {I};
        let v = v0 | (b << s);
        assert forall|t: nat| t < {I.bits} implies #[trigger] wbit{X}(v, t) == (t < n && p(t)) by {
            lemma_wbit_or{X}(v0, b << s, t as {I});
            lemma_wbit_shl{X}(b, s, t as {I});
            if t >= s { lemma_wbit_one{X}((t - s) as {I}); lemma_wbit_zero{X}((t - s) as {I}); }
        }
        v
    }
}
