// T1: assumed contracts of {I}'s std arithmetic helpers that vstd does not specify.
// (Finite-domain; each is re-stated as a full-domain Kani harness in kani/src/std_assumptions.rs.)
pub assume_specification [{I}::overflowing_add] (a: {I}, b: {I}) -> (r: ({I}, bool))
    ensures r.0 as int == (a as int + b as int) % {I.pow}, r.1 == (a as int + b as int >= {I.pow});
pub assume_specification [{I}::overflowing_sub] (a: {I}, b: {I}) -> (r: ({I}, bool))
    ensures r.0 as int == (a as int - b as int) % {I.pow}, r.1 == ((a as int) < (b as int));
