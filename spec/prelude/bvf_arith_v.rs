// Final step of Bvf {OPM} over the operand's value (needs value.rs, value_word.rs, bvf_val.rs)
/// the same final step, stated over the operand's VALUE only (any implementation of the operand)
pub proof fn lemma_bvf_addsub_finish_v<const N1: usize>(o: &Bvf<{I}, N1>, mid: Seq<{I}>, f: &Bvf<{I}, N1>, rv: nat, rw: Seq<{I}>, carry: {I})
    requires
        o.wf(), f.length == o.length, mid.len() == N1,
        forall|b: int| 0 <= b < N1 * {I.bits} ==> #[trigger] bit_at(f.data@, b) == (b < o.length && bit_at(mid, b)),
        words_val(mid, N1 as nat) as int {SGN} (carry as int) * pow2({I.bits} * (N1 as nat)) == words_val(o.data@, N1 as nat) as int {SGN} words_val(rw, N1 as nat) as int,
        words_val(rw, N1 as nat) % pow2(o.length as nat) == rv % pow2(o.length as nat),
    ensures
        f.wf(),
        f.val() as int == (o.val() as int {SGN} rv as int) % (pow2(o.length as nat) as int),
{
    let n = N1 as nat;
    let kk = {I.bits} * n;
    let len = o.length as nat;
    lemma_bvf_val_words(o);
    lemma_seq_val(mid, n);
    lemma_words_val_bound(mid, n);
    lemma_fval_mod(seqf(mid), len, kk);
    assert forall|b: int| 0 <= b < len implies #[trigger] f.bitf()(b) == seqf(mid)(b) by { assert(bit_at(f.data@, b) == (b < o.length && bit_at(mid, b))); }
    lemma_fval_ext(f.bitf(), seqf(mid), len);
    {FIN}(words_val(mid, n), carry as nat, kk, len, o.val(), words_val(rw, n), rv);
    lemma_pow2_pos(len);
}
