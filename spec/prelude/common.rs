// Bit <-> bool
pub open spec fn bit_of(b: Bit) -> bool { b == Bit::One }
pub open spec fn to_bit(b: bool) -> Bit { if b { Bit::One } else { Bit::Zero } }
