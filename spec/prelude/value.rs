// Unsigned value of a list of bits, as a function from positions to bool (type-independent; DESIGN 3.1).
// fval(f, k) = sum over b < k of f(b) * 2^b
use vstd::arithmetic::power2::*;
use vstd::arithmetic::div_mod::*;
use vstd::arithmetic::mul::*;

pub open spec fn b2n(b: bool) -> nat { if b { 1 } else { 0 } }

pub open spec fn fval(f: spec_fn(int) -> bool, k: nat) -> nat
    decreases k
{
    if k == 0 { 0 } else { fval(f, (k - 1) as nat) + b2n(f(k - 1)) * pow2((k - 1) as nat) }
}

pub proof fn lemma_fval_bound(f: spec_fn(int) -> bool, k: nat)
    ensures fval(f, k) < pow2(k)
    decreases k
{
    if k == 0 {
        lemma2_to64();
    } else {
        lemma_fval_bound(f, (k - 1) as nat);
        lemma_pow2_adds((k - 1) as nat, 1);
        lemma2_to64();
    }
}

pub proof fn lemma_fval_ext(f: spec_fn(int) -> bool, g: spec_fn(int) -> bool, k: nat)
    requires forall|b: int| 0 <= b < k ==> #[trigger] f(b) == g(b)
    ensures fval(f, k) == fval(g, k)
    decreases k
{
    if k > 0 { lemma_fval_ext(f, g, (k - 1) as nat); }
}

/// positions at or above `m` that are all zero do not contribute
pub proof fn lemma_fval_zero_above(f: spec_fn(int) -> bool, m: nat, k: nat)
    requires m <= k, forall|b: int| m <= b < k ==> !#[trigger] f(b)
    ensures fval(f, k) == fval(f, m)
    decreases k
{
    if k > m { lemma_fval_zero_above(f, m, (k - 1) as nat); }
}

/// split at position a: low part plus shifted high part
pub proof fn lemma_fval_split(f: spec_fn(int) -> bool, a: nat, b: nat)
    ensures fval(f, a + b) == fval(f, a) + pow2(a) * fval(|t: int| f(a + t), b)
    decreases b
{
    let g = |t: int| f(a + t);
    if b == 0 {
        assert(pow2(a) * 0 == 0) by(nonlinear_arith);
    } else {
        lemma_fval_split(f, a, (b - 1) as nat);
        lemma_pow2_adds(a, (b - 1) as nat);
        let x = fval(g, (b - 1) as nat);
        let y = b2n(g(b - 1));
        let p = pow2(a);
        let q = pow2((b - 1) as nat);
        assert(g(b - 1) == f(a + b - 1));
        assert(p * (x + y * q) == p * x + y * (p * q)) by(nonlinear_arith);
    }
}

/// truncation: the low m bits are the value modulo 2^m
pub proof fn lemma_fval_mod(f: spec_fn(int) -> bool, m: nat, k: nat)
    requires m <= k
    ensures fval(f, k) % pow2(m) == fval(f, m)
{
    lemma_fval_split(f, m, (k - m) as nat);
    let hi = fval(|t: int| f(m + t), (k - m) as nat);
    lemma_fval_bound(f, m);
    lemma_pow2_pos(m);
    let p = pow2(m);
    assert(fval(f, k) == fval(f, m) + p * hi);
    lemma_mod_multiples_vanish(hi as int, fval(f, m) as int, p as int);
    assert((p * hi + fval(f, m)) as int == (p as int) * (hi as int) + fval(f, m) as int) by(nonlinear_arith);
    lemma_small_mod(fval(f, m), p);
}

/// modular sum: if r + c*P == x + y with r < P then r == (x + y) % P
pub proof fn lemma_sum_mod(r: nat, c: nat, p: nat, t: nat)
    requires p > 0, r < p, r + c * p == t
    ensures r == t % p
{
    lemma_fundamental_div_mod_converse(t as int, p as int, c as int, r as int);
}
/// modular difference: if r - c*P == x - y with 0 <= r < P then r == (x - y) mod P  (mathematical mod)
pub proof fn lemma_diff_mod(r: nat, c: nat, p: nat, x: nat, y: nat)
    requires p > 0, r < p, r as int - (c as int) * (p as int) == x as int - y as int
    ensures r as int == (x as int - y as int) % (p as int)
{
    assert((-(c as int)) * (p as int) == -((c as int) * (p as int))) by(nonlinear_arith);
    lemma_fundamental_div_mod_converse(x as int - y as int, p as int, -(c as int), r as int);
}
/// (t % 2^k) % 2^m == t % 2^m for m <= k
pub proof fn lemma_mod_mod_pow2(t: int, m: nat, k: nat)
    requires m <= k
    ensures (t % (pow2(k) as int)) % (pow2(m) as int) == t % (pow2(m) as int)
{
    lemma_pow2_pos(m); lemma_pow2_pos((k - m) as nat);
    lemma_pow2_adds(m, (k - m) as nat);
    lemma_mod_mod(t, pow2(m) as int, pow2((k - m) as nat) as int);
}

/// final step of an addition: v + c*2^K == x + y, v < 2^K, len <= K, y == yr (mod 2^len)  ==>  v mod 2^len == (x + yr) mod 2^len
pub proof fn lemma_add_final(v: nat, c: nat, kk: nat, len: nat, x: nat, y: nat, yr: nat)
    requires v + c * pow2(kk) == x + y, v < pow2(kk), len <= kk, y % pow2(len) == yr % pow2(len)
    ensures v % pow2(len) == (x + yr) % pow2(len)
{
    lemma_pow2_pos(kk); lemma_pow2_pos(len);
    lemma_sum_mod(v, c, pow2(kk), x + y);
    lemma_mod_mod_pow2((x + y) as int, len, kk);
    lemma_add_mod_noop_right(x as int, y as int, pow2(len) as int);
    lemma_add_mod_noop_right(x as int, yr as int, pow2(len) as int);
}
/// final step of a subtraction (mathematical modulus)
pub proof fn lemma_sub_final(v: nat, c: nat, kk: nat, len: nat, x: nat, y: nat, yr: nat)
    requires v as int - (c as int) * (pow2(kk) as int) == x as int - y as int, v < pow2(kk), len <= kk, y % pow2(len) == yr % pow2(len)
    ensures (v % pow2(len)) as int == (x as int - yr as int) % (pow2(len) as int)
{
    lemma_pow2_pos(kk); lemma_pow2_pos(len);
    lemma_diff_mod(v, c, pow2(kk), x, y);
    lemma_mod_mod_pow2(x as int - y as int, len, kk);
    lemma_sub_mod_noop_right(x as int, y as int, pow2(len) as int);
    lemma_sub_mod_noop_right(x as int, yr as int, pow2(len) as int);
}
/// a bit function that is zero at and above `lim`, read up to k bits, agrees mod 2^m with its full value
pub proof fn lemma_fval_trunc_cong(g: spec_fn(int) -> bool, lim: nat, k: nat, m: nat)
    requires m <= k, forall|b: int| lim <= b ==> !#[trigger] g(b)
    ensures fval(g, k) % pow2(m) == fval(g, lim) % pow2(m)
{
    if lim <= k {
        lemma_fval_zero_above(g, lim, k);
    } else {
        lemma_fval_mod(g, k, lim);
        lemma_mod_mod_pow2(fval(g, lim) as int, m, k);
    }
}

/// fval is injective on the first k positions
pub proof fn lemma_fval_injective(f: spec_fn(int) -> bool, g: spec_fn(int) -> bool, k: nat)
    requires fval(f, k) == fval(g, k)
    ensures forall|b: int| 0 <= b < k ==> #[trigger] f(b) == g(b)
    decreases k
{
    if k > 0 {
        let m = (k - 1) as nat;
        lemma_fval_bound(f, m); lemma_fval_bound(g, m);
        lemma_pow2_pos(m);
        let p = pow2(m);
        // the top bit is the quotient by 2^m, the rest the remainder
        assert(fval(f, k) == fval(f, m) + b2n(f(k - 1)) * p);
        assert(fval(g, k) == fval(g, m) + b2n(g(k - 1)) * p);
        if f(k - 1) != g(k - 1) {
            if f(k - 1) { assert(fval(f, k) >= p); assert(fval(g, k) < p); } else { assert(fval(g, k) >= p); assert(fval(f, k) < p); }
            assert(false);
        }
        assert(fval(f, m) == fval(g, m));
        lemma_fval_injective(f, g, m);
        assert forall|b: int| 0 <= b < k implies #[trigger] f(b) == g(b) by { if b < m { } }
    }
}
/// comparison is decided by the most significant differing position
pub proof fn lemma_fval_lt_top(f: spec_fn(int) -> bool, g: spec_fn(int) -> bool, k: nat, d: nat)
    requires d < k, !f(d as int), g(d as int), forall|b: int| d < b < k ==> #[trigger] f(b) == g(b)
    ensures fval(f, k) < fval(g, k)
    decreases k
{
    let m = (k - 1) as nat;
    let p = pow2(m);
    assert(fval(f, k) == fval(f, m) + b2n(f(k - 1)) * p);
    assert(fval(g, k) == fval(g, m) + b2n(g(k - 1)) * p);
    if m == d {
        lemma_fval_bound(f, m);
        assert(b2n(f(k - 1)) == 0 && b2n(g(k - 1)) == 1);
        assert(0 * p == 0 && 1 * p == p) by(nonlinear_arith);
    } else {
        lemma_fval_lt_top(f, g, m, d);
        assert(f(k - 1) == g(k - 1));
        assert(b2n(f(k - 1)) * p == b2n(g(k - 1)) * p);
    }
}
/// the most significant position below k where f and g differ (exists when the values differ)
pub proof fn lemma_top_diff(f: spec_fn(int) -> bool, g: spec_fn(int) -> bool, k: nat) -> (d: nat)
    requires fval(f, k) != fval(g, k)
    ensures d < k, f(d as int) != g(d as int), forall|b: int| d < b < k ==> #[trigger] f(b) == g(b)
    decreases k
{
    if k == 0 {
        assert(false);
        0
    } else if f(k - 1) != g(k - 1) {
        (k - 1) as nat
    } else {
        let m = (k - 1) as nat;
        assert(fval(f, k) == fval(f, m) + b2n(f(k - 1)) * pow2(m));
        assert(fval(g, k) == fval(g, m) + b2n(g(k - 1)) * pow2(m));
        let d = lemma_top_diff(f, g, m);
        assert forall|b: int| d < b < k implies #[trigger] f(b) == g(b) by { if b < m { } }
        d
    }
}
/// total order: the values compare like the bits at the top differing position
pub proof fn lemma_fval_lt_iff(f: spec_fn(int) -> bool, g: spec_fn(int) -> bool, k: nat, d: nat)
    requires d < k, f(d as int) != g(d as int), forall|b: int| d < b < k ==> #[trigger] f(b) == g(b)
    ensures (fval(f, k) < fval(g, k)) == g(d as int), fval(f, k) != fval(g, k)
{
    if g(d as int) { lemma_fval_lt_top(f, g, k, d); } else { lemma_fval_lt_top(g, f, k, d); }
}
