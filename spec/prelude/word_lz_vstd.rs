// leading/trailing run lengths of one {I} word: vstd specifies {I}::leading_zeros & co through
// closed spec functions plus axioms; these lemmas restate the axioms over `wbit{X}`.
pub proof fn lemma_std_lz{X}(v: {I})
    ensures is_lz{X}(v, vstd::std_specs::bits::{I}_leading_zeros(v) as int)
{
    vstd::std_specs::bits::axiom_{I}_leading_zeros(v);
    let lz = vstd::std_specs::bits::{I}_leading_zeros(v);
    assert forall|j: nat| {I.bits} - lz <= j < {I.bits} implies !wbit{X}(v, j) by {
        let ju = j as {I};
        assert((v >> ju) & 1{I} == 0{I});
    }
    if lz < {I.bits} {
        let k = ({I.bits} - 1 - lz) as {I};
        let x = v >> k;
        assert(x & 1 == 0 || x & 1 == 1) by(bit_vector);
    }
}
pub proof fn lemma_std_tz{X}(v: {I})
    ensures is_tz{X}(v, vstd::std_specs::bits::{I}_trailing_zeros(v) as int)
{
    vstd::std_specs::bits::axiom_{I}_trailing_zeros(v);
    let tz = vstd::std_specs::bits::{I}_trailing_zeros(v);
    assert forall|j: nat| j < tz implies !wbit{X}(v, j) by {
        let ju = j as {I};
        assert((v >> ju) & 1{I} == 0{I});
    }
    if tz < {I.bits} {
        let k = tz as {I};
        let x = v >> k;
        assert(x & 1 == 0 || x & 1 == 1) by(bit_vector);
    }
}
pub proof fn lemma_std_lo{X}(v: {I})
    ensures is_lz{X}(!v, vstd::std_specs::bits::{I}_leading_ones(v) as int)
{
    vstd::std_specs::bits::axiom_{I}_leading_ones(v);
    lemma_std_lz{X}(!v);
}
pub proof fn lemma_std_to{X}(v: {I})
    ensures is_tz{X}(!v, vstd::std_specs::bits::{I}_trailing_ones(v) as int)
{
    vstd::std_specs::bits::axiom_{I}_trailing_ones(v);
    lemma_std_tz{X}(!v);
}
