// R12 mirrors of the std integer conversions the crate calls (`usize::try_from(rhs)` in the shift
// operators). The body IS the std call; the contract is assumed (T1) and is the documented behaviour
// of TryFrom between integer types on a 64-bit target (T5).
pub open spec fn int_try_from_post<E>(v: int, r: Result<usize, E>) -> bool {
    &&& v <= usize::MAX ==> r is Ok && r->Ok_0 == v
    &&& v > usize::MAX ==> r is Err
}
impl VTryFrom<u8> for usize {
    type Error = <usize as core::convert::TryFrom<u8>>::Error;
    open spec fn v_try_from_req(value: u8) -> bool { true }
    open spec fn v_try_from_post(value: u8, r: Result<usize, Self::Error>) -> bool { int_try_from_post(value as int, r) }
    #[verifier::external_body]
    fn v_try_from(value: u8) -> (r: Result<usize, Self::Error>) { <usize as core::convert::TryFrom<u8>>::try_from(value) }
}
impl VTryFrom<u16> for usize {
    type Error = <usize as core::convert::TryFrom<u16>>::Error;
    open spec fn v_try_from_req(value: u16) -> bool { true }
    open spec fn v_try_from_post(value: u16, r: Result<usize, Self::Error>) -> bool { int_try_from_post(value as int, r) }
    #[verifier::external_body]
    fn v_try_from(value: u16) -> (r: Result<usize, Self::Error>) { <usize as core::convert::TryFrom<u16>>::try_from(value) }
}
impl VTryFrom<u32> for usize {
    type Error = <usize as core::convert::TryFrom<u32>>::Error;
    open spec fn v_try_from_req(value: u32) -> bool { true }
    open spec fn v_try_from_post(value: u32, r: Result<usize, Self::Error>) -> bool { int_try_from_post(value as int, r) }
    #[verifier::external_body]
    fn v_try_from(value: u32) -> (r: Result<usize, Self::Error>) { <usize as core::convert::TryFrom<u32>>::try_from(value) }
}
impl VTryFrom<u64> for usize {
    type Error = <usize as core::convert::TryFrom<u64>>::Error;
    open spec fn v_try_from_req(value: u64) -> bool { true }
    open spec fn v_try_from_post(value: u64, r: Result<usize, Self::Error>) -> bool { int_try_from_post(value as int, r) }
    #[verifier::external_body]
    fn v_try_from(value: u64) -> (r: Result<usize, Self::Error>) { <usize as core::convert::TryFrom<u64>>::try_from(value) }
}
impl VTryFrom<u128> for usize {
    type Error = <usize as core::convert::TryFrom<u128>>::Error;
    open spec fn v_try_from_req(value: u128) -> bool { true }
    open spec fn v_try_from_post(value: u128, r: Result<usize, Self::Error>) -> bool { int_try_from_post(value as int, r) }
    #[verifier::external_body]
    fn v_try_from(value: u128) -> (r: Result<usize, Self::Error>) { <usize as core::convert::TryFrom<u128>>::try_from(value) }
}
impl VTryFrom<usize> for usize {
    type Error = <usize as core::convert::TryFrom<usize>>::Error;
    open spec fn v_try_from_req(value: usize) -> bool { true }
    open spec fn v_try_from_post(value: usize, r: Result<usize, Self::Error>) -> bool { int_try_from_post(value as int, r) }
    #[verifier::external_body]
    fn v_try_from(value: usize) -> (r: Result<usize, Self::Error>) { <usize as core::convert::TryFrom<usize>>::try_from(value) }
}
