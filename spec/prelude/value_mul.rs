// Schoolbook multiplication over {I} words, truncated to n words (needs value.rs, value_word.rs). B = 2^{I.bits}.
/// replacing word k changes the value by (new - old) * B^k
pub proof fn lemma_words_val_update{X}(d: Seq<{I}>, k: int, v: {I}, n: nat)
    requires 0 <= k < n, n <= d.len()
    ensures words_val{X}(d.update(k, v), n) as int == words_val{X}(d, n) as int + (v as int - d[k] as int) * pow2({I.bits} * (k as nat))
    decreases n
{
    let m = (n - 1) as nat;
    let e = d.update(k, v);
    if k == m {
        lemma_words_val_prefix{X}(e, d, m);
        assert((v as nat) * pow2({I.bits} * m) as int - (d[k] as nat) * pow2({I.bits} * m) as int == (v as int - d[k] as int) * pow2({I.bits} * m)) by(nonlinear_arith);
    } else {
        lemma_words_val_update{X}(d, k, v, m);
        assert(e[m as int] == d[m as int]);
    }
}
/// the first n words are the first m words plus a multiple of B^m
pub proof fn lemma_words_val_split{X}(d: Seq<{I}>, m: nat, n: nat) -> (t: nat)
    requires m <= n
    ensures words_val{X}(d, n) == words_val{X}(d, m) + pow2({I.bits} * m) * t
    decreases n
{
    if m == n {
        assert(pow2({I.bits} * m) * 0 == 0) by(nonlinear_arith);
        0
    } else {
        let n1 = (n - 1) as nat;
        let t1 = lemma_words_val_split{X}(d, m, n1);
        lemma_pow2_adds({I.bits} * m, {I.bits} * ((n1 - m) as nat));
        assert({I.bits} * m + {I.bits} * ((n1 - m) as nat) == {I.bits} * n1);
        let p = pow2({I.bits} * m);
        let q = pow2({I.bits} * ((n1 - m) as nat));
        let x = d[n1 as int] as nat;
        assert(p * t1 + x * (p * q) == p * (t1 + x * q)) by(nonlinear_arith);
        t1 + x * q
    }
}
/// one column of one row: S + c*B^p == P + a*B^i*W  with p = i + j, W = value of the first j operand words;
/// the word at p goes from x to x2 with x2 + ret*B == x + lo + c, lo + hi*B == a*r  ==>  the same equation for j + 1 with carry ret + hi (< B)
pub proof fn lemma_mul_step{X}(s: int, c: int, pp: int, a: int, i: nat, j: nat, w: int, x: int, x2: int, ret: int, lo: int, hi: int, r: int)
    requires
        s + c * pow2({I.bits} * (i + j)) == pp + a * pow2({I.bits} * i) * w,
        x2 + ret * {I.pow} == x + lo + c, lo + hi * {I.pow} == a * r,
        0 <= x <= {I.max}, 0 <= x2, 0 <= c <= {I.max}, 0 <= a <= {I.max}, 0 <= r <= {I.max}, 0 <= lo, 0 <= hi, 0 <= ret,
    ensures
        (s + (x2 - x) * pow2({I.bits} * (i + j))) + (ret + hi) * pow2({I.bits} * (i + j + 1)) == pp + a * pow2({I.bits} * i) * (w + r * pow2({I.bits} * j)),
        ret + hi <= {I.max},
{
    lemma_pow2_wb{X}();
    lemma_pow2_adds({I.bits} * (i + j), {I.bits});
    lemma_pow2_adds({I.bits} * i, {I.bits} * j);
    assert({I.bits} * (i + j) + {I.bits} == {I.bits} * (i + j + 1));
    assert({I.bits} * i + {I.bits} * j == {I.bits} * (i + j));
    let bp = pow2({I.bits} * (i + j)) as int;
    let bi = pow2({I.bits} * i) as int;
    let bj = pow2({I.bits} * j) as int;
    let bb: int = {I.pow};
    assert(pow2({I.bits} * (i + j + 1)) as int == bp * bb);
    assert(bp == bi * bj);
    // carry bound: x2 + B*(ret+hi) == x + a*r + c <= B^2 - 1
    assert(a * r <= {I.max} * {I.max}) by(nonlinear_arith) requires 0 <= a <= {I.max}, 0 <= r <= {I.max};
    assert(x2 + (ret + hi) * bb == x + a * r + c) by(nonlinear_arith) requires x2 + ret * bb == x + lo + c, lo + hi * bb == a * r;
    assert(ret + hi <= {I.max}) by(nonlinear_arith) requires x2 + (ret + hi) * bb == x + a * r + c, x2 >= 0, x + a * r + c <= {I.max} + {I.max} * {I.max} + {I.max}, bb == {I.pow};
    // the equation
    assert((x2 - x) * bp + (ret + hi) * (bp * bb) == (c + a * r) * bp) by(nonlinear_arith)
        requires x2 + (ret + hi) * bb == x + a * r + c;
    assert(a * bi * (w + r * bj) == a * bi * w + (a * r) * (bi * bj)) by(nonlinear_arith);
    assert((c + a * r) * bp == c * bp + (a * r) * bp) by(nonlinear_arith);
}
/// end of row i (m = n - i columns done): from  S + c*B^n == P + a*B^i*W_m  and  P + q*B^n == A_i * R  to  S + q2*B^n == (A_i + a*B^i) * R
pub proof fn lemma_mul_row_end{X}(s: int, c: int, pp: int, q: int, a: int, i: nat, n: nat, wm: int, t: int, ai: int, r: int) -> (q2: int)
    requires
        i < n,
        s + c * pow2({I.bits} * n) == pp + a * pow2({I.bits} * i) * wm,
        pp + q * pow2({I.bits} * n) == ai * r,
        r == wm + pow2({I.bits} * ((n - i) as nat)) * t,
        0 <= q, 0 <= c, 0 <= a, 0 <= t,
    ensures
        s + q2 * pow2({I.bits} * n) == (ai + a * pow2({I.bits} * i)) * r,
        0 <= q2,
{
    let m = (n - i) as nat;
    lemma_pow2_adds({I.bits} * i, {I.bits} * m);
    assert({I.bits} * i + {I.bits} * m == {I.bits} * n);
    let bn = pow2({I.bits} * n) as int;
    let bi = pow2({I.bits} * i) as int;
    let bm = pow2({I.bits} * m) as int;
    assert(bn == bi * bm);
    let q2 = q + c + a * t;
    assert(a * t >= 0) by(nonlinear_arith) requires a >= 0, t >= 0;
    assert(a * bi * wm == a * bi * r - (a * t) * (bi * bm)) by(nonlinear_arith) requires r == wm + bm * t;
    assert((ai + a * bi) * r == ai * r + a * bi * r) by(nonlinear_arith);
    assert((q + c + a * t) * bn == q * bn + c * bn + (a * t) * bn) by(nonlinear_arith);
    q2
}
/// truncation of the product:  S + q*B^n == A*R, len <= bits*n, R == rv (mod 2^len)  ==>  S mod 2^len == (A*rv) mod 2^len
pub proof fn lemma_mul_final{X}(s: nat, q: nat, n: nat, len: nat, a: nat, r: nat, rv: nat)
    requires s + q * pow2({I.bits} * n) == a * r, len <= {I.bits} * n, r % pow2(len) == rv % pow2(len)
    ensures s % pow2(len) == (a * rv) % pow2(len)
{
    lemma_pow2_pos(len);
    let p = pow2(len) as int;
    lemma_pow2_adds(len, ({I.bits} * n - len) as nat);
    let h = pow2(({I.bits} * n - len) as nat) as int;
    assert(pow2({I.bits} * n) as int == p * h);
    // s = a*r - (q*h)*p
    assert((q as int) * (p * h) == (q as int * h) * p) by(nonlinear_arith);
    lemma_mod_multiples_vanish(-(q as int * h), (a * r) as int, p);
    assert((a * r) as int + (-(q as int * h)) * p == s as int) by(nonlinear_arith)
        requires s as int + (q as int * h) * p == (a * r) as int;
    // a*r == a*rv (mod p)
    lemma_mul_mod_noop_right(a as int, r as int, p);
    lemma_mul_mod_noop_right(a as int, rv as int, p);
}
/// a sequence whose bits are all zero has value 0 on every prefix
pub proof fn lemma_words_val_zero{X}(d: Seq<{I}>, n: nat)
    requires n <= d.len(), forall|b: int| 0 <= b < d.len() * {I.bits} ==> !bit_at{X}(d, b)
    ensures words_val{X}(d, n) == 0
    decreases n
{
    if n > 0 {
        let m = (n - 1) as nat;
        lemma_words_val_zero{X}(d, m);
        assert forall|j: {I}| j < {I.bits} implies wbit{X}(d[m as int], j as nat) == wbit{X}(0{I}, j as nat) by {
            let b = m * {I.bits} + j;
            lemma_divmod_at{X}(m as int, j as int);
            assert(b / {I.bits} == m as int && b % {I.bits} == j as int);
            assert(!bit_at{X}(d, b));
            lemma_wbit_zero{X}(j);
        }
        lemma_wbit_ext{X}(d[m as int], 0{I});
        assert(0 * pow2({I.bits} * m) == 0) by(nonlinear_arith);
    }
}
