// Bridges between the bit-level contracts of the callees of div_rem and VALUES, for Bvf<{I},N> (needs value_div.rs, bvf_val.rs)
pub proof fn lemma_bvf_zero_iff{X}<const N: usize>(v: &Bvf<{I}, N>)
    requires v.wf()
    ensures (v.val() == 0) == (forall|i: int| 0 <= i < v.length ==> !bit_at{X}(v.data@, i))
{
    lemma_fval_zero_iff(v.bitf(), v.length as nat);
    if forall|i: int| 0 <= i < v.length ==> !bit_at{X}(v.data@, i) {
        assert forall|b: int| 0 <= b < v.length implies !#[trigger] v.bitf()(b) by { }
    } else {
        let i = choose|i: int| 0 <= i < v.length && bit_at{X}(v.data@, i);
        assert(v.bitf()(i));
    }
}
pub proof fn lemma_bvf_sig{X}<const N: usize>(v: &Bvf<{I}, N>, s: int)
    requires v.wf(), v.is_sig(s)
    ensures
        v.val() < pow2(s as nat), s > 0 ==> v.val() >= pow2((s - 1) as nat), s == 0 ==> v.val() == 0,
        forall|r: int| #[trigger] v.is_sig(r) ==> r == s,
{
    assert forall|b: int| s <= b < v.length implies !#[trigger] v.bitf()(b) by { }
    if s > 0 { assert(v.bitf()(s - 1)); }
    lemma_fval_sig(v.bitf(), v.length as nat, s as nat);
    assert forall|r: int| #[trigger] v.is_sig(r) implies r == s by {
        if r < s { assert(bit_at{X}(v.data@, s - 1)); assert(!bit_at{X}(v.data@, s - 1)); }
        if r > s { assert(bit_at{X}(v.data@, r - 1)); assert(!bit_at{X}(v.data@, r - 1)); }
    }
}
/// the number of significant bits exists (search from the top)
pub proof fn lemma_bvf_sig_search{X}<const N: usize>(v: &Bvf<{I}, N>, k: int) -> (s: int)
    requires 0 <= k <= v.length, forall|i: int| k <= i < v.length ==> !bit_at{X}(v.data@, i)
    ensures v.is_sig(s)
    decreases k
{
    if k == 0 { 0 } else if bit_at{X}(v.data@, k - 1) { k } else { lemma_bvf_sig_search{X}(v, k - 1) }
}
/// value of a vector that agrees with a bit function below m and is zero from m on
pub proof fn lemma_bvf_val_prefix{X}<const N: usize>(v: &Bvf<{I}, N>, g: spec_fn(int) -> bool, m: nat)
    requires v.wf(), m <= v.length, forall|b: int| 0 <= b < m ==> #[trigger] bit_at{X}(v.data@, b) == g(b), forall|b: int| m <= b < v.length ==> !bit_at{X}(v.data@, b)
    ensures v.val() == fval(g, m)
{
    assert forall|b: int| m <= b < v.length implies !#[trigger] v.bitf()(b) by { }
    lemma_fval_zero_above(v.bitf(), m, v.length as nat);
    assert forall|b: int| 0 <= b < m implies #[trigger] v.bitf()(b) == g(b) by { assert(bit_at{X}(v.data@, b) == g(b)); }
    lemma_fval_ext(v.bitf(), g, m);
}
