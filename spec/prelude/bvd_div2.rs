/// `a >= b` on two Bvd is std's default PartialOrd::ge: partial_cmp is Greater or Equal (R22)
pub fn verif_ge_bvd(a: &Bvd, b: &Bvd) -> (r: bool)
    requires a.wf(), b.wf()
    ensures r == (a.val() >= b.val())
{
    match a.partial_cmp(b) {
        Some(Ordering::Less) => false,
        Some(_) => true,
        None => false,
    }
}
