// Comparison theory over two bit functions read as sequences of {I} words (needs value.rs, value_word.rs).
// wa(k)/wb(k) is the k-th word of operand a/b: its bit t is the operand's bit k*{I.bits}+t; both operands are zero at and beyond la/lb.
pub open spec fn words_of{X}(f: spec_fn(int) -> bool, w: spec_fn(int) -> {I}) -> bool {
    forall|k: int, t: nat| 0 <= k && t < {I.bits} ==> #[trigger] wbit{X}(w(k), t) == f(k * {I.bits} + t)
}
pub open spec fn zero_from(f: spec_fn(int) -> bool, l: nat) -> bool { forall|p: int| l <= p ==> !#[trigger] f(p) }

/// all words below n equal, n words cover both lengths  ==>  equal values
pub proof fn lemma_cmpw_all_equal{X}(fa: spec_fn(int) -> bool, fb: spec_fn(int) -> bool, la: nat, lb: nat, wa: spec_fn(int) -> {I}, wb: spec_fn(int) -> {I}, n: nat)
    requires words_of{X}(fa, wa), words_of{X}(fb, wb), zero_from(fa, la), zero_from(fb, lb), la <= n * {I.bits}, lb <= n * {I.bits},
        forall|k: int| 0 <= k < n ==> #[trigger] wa(k) == wb(k),
    ensures fval(fa, la) == fval(fb, lb)
{
    let kk = n * {I.bits};
    assert forall|p: int| 0 <= p < kk implies #[trigger] fa(p) == fb(p) by {
        let k = p / {I.bits};
        let t = (p % {I.bits}) as nat;
        assert(wa(k) == wb(k));
        assert(wbit{X}(wa(k), t) == fa(k * {I.bits} + t));
        assert(wbit{X}(wb(k), t) == fb(k * {I.bits} + t));
    }
    lemma_fval_ext(fa, fb, kk);
    lemma_fval_zero_above(fa, la, kk);
    lemma_fval_zero_above(fb, lb, kk);
}
/// word k differs and all words in (k, n) are equal  ==>  the values compare like the words
pub proof fn lemma_cmpw_decide{X}(fa: spec_fn(int) -> bool, fb: spec_fn(int) -> bool, la: nat, lb: nat, wa: spec_fn(int) -> {I}, wb: spec_fn(int) -> {I}, n: nat, k: int)
    requires words_of{X}(fa, wa), words_of{X}(fb, wb), zero_from(fa, la), zero_from(fb, lb), la <= n * {I.bits}, lb <= n * {I.bits}, 0 <= k < n,
        wa(k) != wb(k),
        forall|m: int| k < m < n ==> #[trigger] wa(m) == wb(m),
    ensures
        fval(fa, la) != fval(fb, lb),
        (fval(fa, la) < fval(fb, lb)) == (wa(k) < wb(k)),
{
    let kk = n * {I.bits};
    let x = wa(k);
    let y = wb(k);
    lemma_word_val{X}(x); lemma_word_val{X}(y);
    let dt = lemma_top_diff(wordf{X}(x), wordf{X}(y), {I.bits});
    lemma_fval_lt_iff(wordf{X}(x), wordf{X}(y), {I.bits}, dt);
    let d = (k * {I.bits} + dt) as nat;
    assert(fa(d as int) == wbit{X}(x, dt));
    assert(fb(d as int) == wbit{X}(y, dt));
    assert forall|p: int| d < p < kk implies #[trigger] fa(p) == fb(p) by {
        let m = p / {I.bits};
        let t = (p % {I.bits}) as nat;
        assert(wbit{X}(wa(m), t) == fa(m * {I.bits} + t));
        assert(wbit{X}(wb(m), t) == fb(m * {I.bits} + t));
        if m == k {
            assert(wordf{X}(x)(t as int) == wordf{X}(y)(t as int));
        } else {
            assert(wa(m) == wb(m));
        }
    }
    lemma_fval_lt_iff(fa, fb, kk, d);
    lemma_fval_zero_above(fa, la, kk);
    lemma_fval_zero_above(fb, lb, kk);
}
/// some word differs  ==>  the values differ
pub proof fn lemma_cmpw_neq{X}(fa: spec_fn(int) -> bool, fb: spec_fn(int) -> bool, la: nat, lb: nat, wa: spec_fn(int) -> {I}, wb: spec_fn(int) -> {I}, n: nat, k: int)
    requires words_of{X}(fa, wa), words_of{X}(fb, wb), zero_from(fa, la), zero_from(fb, lb), la <= n * {I.bits}, lb <= n * {I.bits}, 0 <= k < n,
        wa(k) != wb(k),
    ensures fval(fa, la) != fval(fb, lb)
{
    let kk = n * {I.bits};
    if fval(fa, la) == fval(fb, lb) {
        lemma_fval_zero_above(fa, la, kk);
        lemma_fval_zero_above(fb, lb, kk);
        lemma_fval_injective(fa, fb, kk);
        assert forall|j: {I}| j < {I.bits} implies #[trigger] wbit{X}(wa(k), j as nat) == wbit{X}(wb(k), j as nat) by {
            assert(fa(k * {I.bits} + j) == fb(k * {I.bits} + j));
        }
        lemma_wbit_ext{X}(wa(k), wb(k));
    }
}
