// Re-chunking a slice of narrow words {I} into wide chunks {J} ({J.bits} = s * {I.bits}): the word-combining loop of `impl IArray for [I]`.
/// bit t of chunk idx read directly from the narrow words it is assembled from (false beyond the end of the slice)
pub open spec fn slice_bit_{I}_{J}(data: Seq<{I}>, idx: int, t: nat) -> bool {
    idx * ({J.bits}int / {I.bits}) + (t as int) / {I.bits} < data.len()
        && wbit{X}(data[idx * ({J.bits}int / {I.bits}) + (t as int) / {I.bits}], ((t as int) % {I.bits}) as nat)
}
/// one iteration: OR-ing word idx*s+i (zero beyond the end), cast and shifted by {I.bits}*i, extends the assembled prefix by {I.bits} bits
pub proof fn lemma_combine_step_{I}_{J}(data: Seq<{I}>, idx: int, i: int, v0: {J}, x: {I}, v: {J})
    requires
        0 <= idx, 0 <= i < {J.bits}int / {I.bits},
        x == (if idx * ({J.bits}int / {I.bits}) + i < data.len() { data[idx * ({J.bits}int / {I.bits}) + i] } else { 0{I} }),
        v == v0 | ((x as {J}) << (({I.bits} * i) as {J})),
        forall|t: nat| t < {J.bits} ==> #[trigger] wbit{Y}(v0, t) == (t < {I.bits} * i && slice_bit_{I}_{J}(data, idx, t)),
    ensures
        forall|t: nat| t < {J.bits} ==> #[trigger] wbit{Y}(v, t) == (t < {I.bits} * (i + 1) && slice_bit_{I}_{J}(data, idx, t)),
{
    let sh: {J} = ({I.bits} * i) as {J};
    let c: {J} = x as {J};
    assert forall|t: nat| t < {J.bits} implies #[trigger] wbit{Y}(v, t) == (t < {I.bits} * (i + 1) && slice_bit_{I}_{J}(data, idx, t)) by {
        lemma_wbit_or{Y}(v0, c << sh, t as {J});
        lemma_wbit_shl{Y}(c, sh, t as {J});
        if t >= {I.bits} * i {
            let u = (t - {I.bits} * i) as nat;
            lemma_cast_bit_{I}_{J}(x, u as {J});
            if u < {I.bits} {
                lemma_divmod_at(i, u as int);
                assert(t == i * {I.bits} + u);
                if !(idx * ({J.bits}int / {I.bits}) + i < data.len()) { lemma_wbit_zero(u as {I}); }
            } else {
                assert(t >= {I.bits} * (i + 1));
            }
        }
    }
}
/// after all s iterations the assembled value is chunk idx of the slice seen as a bit string of data.len() * {I.bits} bits
pub proof fn lemma_combined_chunk_{I}_{J}(data: Seq<{I}>, idx: int, v: {J})
    requires
        0 <= idx,
        forall|t: nat| t < {J.bits} ==> #[trigger] wbit{Y}(v, t) == slice_bit_{I}_{J}(data, idx, t),
    ensures chunk_is_{I}_{J}(data, (data.len() * {I.bits}) as int, idx, v)
{
    assert forall|t: nat| t < {J.bits} implies #[trigger] wbit{Y}(v, t) == (idx * {J.bits} + t < data.len() * {I.bits} && bit_at{X}(data, idx * {J.bits} + t)) by {
        let q = (t as int) / {I.bits};
        let r = (t as int) % {I.bits};
        vstd::arithmetic::div_mod::lemma_fundamental_div_mod(t as int, {I.bits});
        let w = idx * ({J.bits}int / {I.bits}) + q;
        assert(idx * {J.bits} + t == w * {I.bits} + r);
        lemma_divmod_at(w, r);
        assert((w * {I.bits} + r < data.len() * {I.bits}) == (w < data.len()));
    }
}
/// the word-splitting loop: once words idx*s .. idx*s+s (those that exist) hold the successive {I.bits}-bit parts of v and every
/// other word is unchanged, the bit string differs from the old one exactly on chunk idx, where it carries the bits of v
pub proof fn lemma_split_written_{I}_{J}(d0: Seq<{I}>, d1: Seq<{I}>, idx: int, v: {J})
    requires
        0 <= idx, d1.len() == d0.len(),
        forall|k: int| 0 <= k < d1.len() ==> #[trigger] d1[k] ==
            (if idx * ({J.bits}int / {I.bits}) <= k < idx * ({J.bits}int / {I.bits}) + ({J.bits}int / {I.bits}) { (v >> (({I.bits} * (k - idx * ({J.bits}int / {I.bits}))) as {J})) as {I} } else { d0[k] }),
    ensures
        forall|b: int| 0 <= b < d0.len() * {I.bits} ==> #[trigger] bit_at{X}(d1, b) ==
            (if idx * {J.bits} <= b < idx * {J.bits} + {J.bits} { wbit{Y}(v, (b - idx * {J.bits}) as nat) } else { bit_at{X}(d0, b) }),
{
    let s = {J.bits}int / {I.bits};
    assert forall|b: int| 0 <= b < d0.len() * {I.bits} implies #[trigger] bit_at{X}(d1, b) ==
            (if idx * {J.bits} <= b < idx * {J.bits} + {J.bits} { wbit{Y}(v, (b - idx * {J.bits}) as nat) } else { bit_at{X}(d0, b) }) by {
        let k = b / {I.bits};
        let u = b % {I.bits};
        vstd::arithmetic::div_mod::lemma_fundamental_div_mod(b, {I.bits});
        assert(0 <= k < d1.len());
        assert((idx * {J.bits} <= b < idx * {J.bits} + {J.bits}) == (idx * s <= k < idx * s + s));
        if idx * s <= k < idx * s + s {
            let sh: {J} = ({I.bits} * (k - idx * s)) as {J};
            lemma_shr_cast_bit_{J}_{I}(v, sh, u as {I});
            assert(b - idx * {J.bits} == sh + u);
        }
    }
}
