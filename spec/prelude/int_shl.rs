// T1: {J}::checked_shl (std): None exactly when the amount is at least the width
pub assume_specification [{J}::checked_shl] (a: {J}, s: u32) -> (r: Option<{J}>)
    ensures s < {J.bits} ==> r == Some(a << s), s >= {J.bits} ==> r is None;
