// mirror of core::iter::IntoIterator with a contract hook (R12 style): `for &'a V` impls are emitted as impls of this trait
pub trait VIntoIterator: Sized {
    type Item;
    type IntoIter;
    spec fn into_iter_req(self) -> bool;
    spec fn into_iter_post(self, r: Self::IntoIter) -> bool;
    fn into_iter(self) -> (r: Self::IntoIter)
        requires self.into_iter_req()
        ensures self.into_iter_post(r);
}
