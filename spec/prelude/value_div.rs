// Value-level facts for restoring division (needs value.rs): zero test, significant bits, shifts, single-bit set.
pub proof fn lemma_fval_all_zero(f: spec_fn(int) -> bool, k: nat)
    requires forall|b: int| 0 <= b < k ==> !#[trigger] f(b)
    ensures fval(f, k) == 0
    decreases k
{
    if k > 0 {
        lemma_fval_all_zero(f, (k - 1) as nat);
        assert(0 * pow2((k - 1) as nat) == 0) by(nonlinear_arith);
    }
}
pub proof fn lemma_fval_ge_bit(f: spec_fn(int) -> bool, k: nat, i: int)
    requires 0 <= i < k, f(i)
    ensures fval(f, k) >= pow2(i as nat)
    decreases k
{
    if i == k - 1 {
        assert(1 * pow2((k - 1) as nat) == pow2((k - 1) as nat)) by(nonlinear_arith);
    } else {
        lemma_fval_ge_bit(f, (k - 1) as nat, i);
        assert(b2n(f(k - 1)) * pow2((k - 1) as nat) >= 0) by(nonlinear_arith);
    }
}
/// zero test: the value is 0 exactly when no bit is set
pub proof fn lemma_fval_zero_iff(f: spec_fn(int) -> bool, k: nat)
    ensures (fval(f, k) == 0) == (forall|b: int| 0 <= b < k ==> !#[trigger] f(b))
{
    if forall|b: int| 0 <= b < k ==> !#[trigger] f(b) {
        lemma_fval_all_zero(f, k);
    } else {
        let b = choose|b: int| 0 <= b < k && #[trigger] f(b);
        lemma_fval_ge_bit(f, k, b);
        lemma_pow2_pos(b as nat);
    }
}
/// s significant bits (zero at and above s, bit s-1 set when s > 0):  2^(s-1) <= value < 2^s
pub proof fn lemma_fval_sig(f: spec_fn(int) -> bool, k: nat, s: nat)
    requires s <= k, forall|b: int| s <= b < k ==> !#[trigger] f(b), s > 0 ==> f(s - 1)
    ensures fval(f, k) == fval(f, s), fval(f, k) < pow2(s), s > 0 ==> fval(f, k) >= pow2((s - 1) as nat), s == 0 ==> fval(f, k) == 0
{
    lemma_fval_zero_above(f, s, k);
    lemma_fval_bound(f, s);
    if s > 0 { lemma_fval_ge_bit(f, s, s - 1); }
}
/// left shift by s inside k bits, nothing shifted out:  g(b) == (b >= s && f(b - s)),  f zero at and above k - s  ==>  value(g) == value(f) * 2^s
pub proof fn lemma_fval_shl(f: spec_fn(int) -> bool, g: spec_fn(int) -> bool, k: nat, s: nat)
    requires s <= k, forall|b: int| 0 <= b < k ==> #[trigger] g(b) == (b >= s && f(b - s)), forall|b: int| k - s <= b < k ==> !#[trigger] f(b)
    ensures fval(g, k) == fval(f, k) * pow2(s)
{
    let m = (k - s) as nat;
    lemma_fval_split(g, s, m);
    assert forall|b: int| 0 <= b < s implies !#[trigger] g(b) by { }
    lemma_fval_all_zero(g, s);
    let h = |t: int| g(s + t);
    assert forall|t: int| 0 <= t < m implies #[trigger] h(t) == f(t) by { assert(g(s + t) == (s + t >= s && f(s + t - s))); }
    lemma_fval_ext(h, f, m);
    lemma_fval_zero_above(f, m, k);
    assert(pow2(s) * fval(f, m) == fval(f, m) * pow2(s)) by(nonlinear_arith);
}
/// right shift by one:  g(b) == (b + 1 < k && f(b + 1))  ==>  value(g) == value(f) / 2
pub proof fn lemma_fval_shr1(f: spec_fn(int) -> bool, g: spec_fn(int) -> bool, k: nat)
    requires forall|b: int| 0 <= b < k ==> #[trigger] g(b) == (b + 1 < k && f(b + 1))
    ensures fval(g, k) == fval(f, k) / 2
{
    lemma2_to64();
    if k == 0 {
    } else {
        let m = (k - 1) as nat;
        lemma_fval_split(f, 1, m);
        let h = |t: int| f(1 + t);
        assert forall|t: int| 0 <= t < m implies #[trigger] g(t) == h(t) by { assert(g(t) == (t + 1 < k && f(t + 1))); }
        lemma_fval_ext(g, h, m);
        assert(!g(k - 1));
        assert(fval(g, k) == fval(g, m) + b2n(g(k - 1)) * pow2(m));
        assert(0 * pow2(m) == 0) by(nonlinear_arith);
        // value(f) = f(0) + 2 * value(h)
        assert(fval(f, 1) == b2n(f(0))) by {
            assert(fval(f, 1) == fval(f, 0) + b2n(f(0)) * pow2(0));
            assert(b2n(f(0)) * 1 == b2n(f(0))) by(nonlinear_arith);
        }
        let x = fval(h, m);
        assert(fval(f, k) == b2n(f(0)) + 2 * x);
        assert((b2n(f(0)) + 2 * x) / 2 == x) by {
            lemma_fundamental_div_mod_converse((b2n(f(0)) + 2 * x) as int, 2, x as int, b2n(f(0)) as int);
        }
    }
}
/// setting a clear bit i adds 2^i
pub proof fn lemma_fval_set_bit(f: spec_fn(int) -> bool, g: spec_fn(int) -> bool, k: nat, i: int)
    requires 0 <= i < k, !f(i), g(i), forall|b: int| 0 <= b < k && b != i ==> #[trigger] g(b) == f(b)
    ensures fval(g, k) == fval(f, k) + pow2(i as nat)
    decreases k
{
    if i == k - 1 {
        lemma_fval_ext(g, f, (k - 1) as nat);
        assert(1 * pow2((k - 1) as nat) == pow2((k - 1) as nat)) by(nonlinear_arith);
        assert(0 * pow2((k - 1) as nat) == 0) by(nonlinear_arith);
    } else {
        lemma_fval_set_bit(f, g, (k - 1) as nat, i);
        assert(g(k - 1) == f(k - 1));
    }
}
/// one step of restoring division and the final identification of quotient and remainder
pub proof fn lemma_div_step(a: nat, d: nat, q: nat, r: nat, i: nat)
    requires a == q * d + r, r < d * pow2(i + 1), d > 0
    ensures
        r >= d * pow2(i) ==> a == (q + pow2(i)) * d + (r - d * pow2(i)) && r - d * pow2(i) < d * pow2(i),
        r < d * pow2(i) ==> true,
        (d * pow2(i)) / 2 == (if i > 0 { d * pow2((i - 1) as nat) } else { d / 2 }),
{
    lemma_pow2_adds(i, 1);
    lemma2_to64();
    let p = pow2(i);
    assert(pow2(i + 1) == 2 * p);
    assert(d * (2 * p) == 2 * (d * p)) by(nonlinear_arith);
    assert((q + p) * d == q * d + d * p) by(nonlinear_arith);
    if i > 0 {
        lemma_pow2_adds((i - 1) as nat, 1);
        let p1 = pow2((i - 1) as nat);
        assert(d * (p1 * 2) == 2 * (d * p1)) by(nonlinear_arith);
        assert(p == p1 * 2);
        lemma_fundamental_div_mod_converse((d * p) as int, 2, (d * p1) as int, 0);
    } else {
        assert(d * 1 == d) by(nonlinear_arith);
    }
}
pub proof fn lemma_div_final(a: nat, d: nat, q: nat, r: nat)
    requires a == q * d + r, r < d, d > 0
    ensures q == a / d, r == a % d
{
    lemma_fundamental_div_mod_converse(a as int, d as int, q as int, r as int);
}
