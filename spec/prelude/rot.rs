// Rotation index arithmetic (pure integer lemmas), DESIGN 3.1: rotl_spec(s,k)[t] == s[(t + n - k) % n]
pub open spec fn rot_src(t: int, len: int, rot: int) -> int { (t + len - rot) % len }

pub proof fn lemma_rot_src(old_idx: int, rot: int, len: int, d: int)
    requires 0 <= old_idx < len, 0 <= rot <= len, 0 <= d, old_idx + d < len,
             ((old_idx + rot) % len) + d < len,
    ensures rot_src(((old_idx + rot) % len) + d, len, rot) == old_idx + d
{
    let ni = (old_idx + rot) % len;
    if old_idx + rot < len {
        vstd::arithmetic::div_mod::lemma_small_mod((old_idx + rot) as nat, len as nat);
        assert(ni == old_idx + rot);
        vstd::arithmetic::div_mod::lemma_mod_add_multiples_vanish(old_idx + d, len);
        vstd::arithmetic::div_mod::lemma_small_mod((old_idx + d) as nat, len as nat);
    } else {
        vstd::arithmetic::div_mod::lemma_mod_sub_multiples_vanish(old_idx + rot, len);
        vstd::arithmetic::div_mod::lemma_small_mod((old_idx + rot - len) as nat, len as nat);
        assert(ni == old_idx + rot - len);
        vstd::arithmetic::div_mod::lemma_small_mod((old_idx + d) as nat, len as nat);
    }
}

pub proof fn lemma_rot_src_inv(t: int, len: int, rot: int)
    requires 0 <= t < len, 0 <= rot <= len
    ensures 0 <= rot_src(t, len, rot) < len, (rot_src(t, len, rot) + rot) % len == t
{
    let u = t + len - rot;
    vstd::arithmetic::div_mod::lemma_mod_bound(u, len);
    if u < len {
        vstd::arithmetic::div_mod::lemma_small_mod(u as nat, len as nat);
        vstd::arithmetic::div_mod::lemma_mod_add_multiples_vanish(t, len);
        vstd::arithmetic::div_mod::lemma_small_mod(t as nat, len as nat);
    } else {
        vstd::arithmetic::div_mod::lemma_mod_sub_multiples_vanish(u, len);
        vstd::arithmetic::div_mod::lemma_small_mod((u - len) as nat, len as nat);
        vstd::arithmetic::div_mod::lemma_small_mod(t as nat, len as nat);
    }
}
// (t + rot) % len, the destination of bit t under rotl(rot)
pub open spec fn rot_dst(t: int, len: int, rot: int) -> int { (t + rot) % len }

pub proof fn lemma_rot_dst_src(t: int, len: int, rot: int)
    requires 0 <= t < len, 0 <= rot <= len
    ensures 0 <= rot_dst(t, len, rot) < len, rot_src(rot_dst(t, len, rot), len, rot) == t
{
    vstd::arithmetic::div_mod::lemma_mod_bound(t + rot, len);
    lemma_rot_src(t, rot, len, 0);
}
// rotr: new bit t comes from old bit (t + rot) % len; a run of d consecutive positions maps to a run
pub proof fn lemma_rot_dst_run(new_idx: int, rot: int, len: int, d: int)
    requires 0 <= new_idx < len, 0 <= rot <= len, 0 <= d, new_idx + d < len,
             ((new_idx + rot) % len) + d < len,
    ensures rot_dst(new_idx + d, len, rot) == ((new_idx + rot) % len) + d
{
    let oi = (new_idx + rot) % len;
    if new_idx + rot < len {
        vstd::arithmetic::div_mod::lemma_small_mod((new_idx + rot) as nat, len as nat);
        vstd::arithmetic::div_mod::lemma_small_mod((new_idx + rot + d) as nat, len as nat);
    } else {
        vstd::arithmetic::div_mod::lemma_mod_sub_multiples_vanish(new_idx + rot, len);
        vstd::arithmetic::div_mod::lemma_small_mod((new_idx + rot - len) as nat, len as nat);
        vstd::arithmetic::div_mod::lemma_mod_sub_multiples_vanish(new_idx + d + rot, len);
        vstd::arithmetic::div_mod::lemma_small_mod((new_idx + d + rot - len) as nat, len as nat);
    }
}
