// Final step of Bvf {OPM}: from the carry-chain equation over whole words to the value-level contract.
pub proof fn lemma_bvf_addsub_finish<const N1: usize, const N2: usize>(o: &Bvf<{I}, N1>, mid: Seq<{I}>, f: &Bvf<{I}, N1>, rhs: &Bvf<{J}, N2>, rw: Seq<{I}>, carry: {I})
    requires
        o.wf(), rhs.wf(), f.length == o.length, mid.len() == N1,
        forall|b: int| 0 <= b < N1 * {I.bits} ==> #[trigger] bit_at(f.data@, b) == (b < o.length && bit_at(mid, b)),
        words_val(mid, N1 as nat) as int {SGN} (carry as int) * pow2({I.bits} * (N1 as nat)) == words_val(o.data@, N1 as nat) as int {SGN} words_val(rw, N1 as nat) as int,
        words_val(rw, N1 as nat) == fval(rhs.bitf(), {I.bits} * (N1 as nat)),
    ensures
        f.wf(),
        f.val() as int == (o.val() as int {SGN} rhs.val() as int) % (pow2(o.length as nat) as int),
{
    let n = N1 as nat;
    let kk = {I.bits} * n;
    let len = o.length as nat;
    lemma_bvf_val_words(o);
    lemma_seq_val(mid, n);
    lemma_words_val_bound(mid, n);
    // value of the result = low `len` bits of mid
    lemma_fval_mod(seqf(mid), len, kk);
    assert forall|b: int| 0 <= b < len implies #[trigger] f.bitf()(b) == seqf(mid)(b) by { assert(bit_at(f.data@, b) == (b < o.length && bit_at(mid, b))); }
    lemma_fval_ext(f.bitf(), seqf(mid), len);
    // operand: its low kk bits agree with its value modulo 2^len
    assert forall|b: int| rhs.length <= b implies !#[trigger] rhs.bitf()(b) by { }
    lemma_fval_trunc_cong(rhs.bitf(), rhs.length as nat, kk, len);
    {FIN}(words_val(mid, n), carry as nat, kk, len, o.val(), words_val(rw, n), rhs.val());
    lemma_pow2_pos(len);
}
