// append / prepend of the fixed implementation: byte-granular splice through get_int::<u8> / set_int::<u8>. Subject storage words {I}
// (vocabulary `bit_at`), operand storage words {K} (vocabulary suffix {XK}), byte vocabulary suffix {Y8}.
pub open spec fn sxf{XK}(od: Seq<{K}>, olen: int, u: int) -> bool { 0 <= u < olen && bit_at{XK}(od, u) }
pub open spec fn appf_bit{XK}(d0: Seq<{I}>, l0: int, od: Seq<{K}>, olen: int, p: int) -> bool {
    if p < l0 { bit_at(d0, p) } else { sxf{XK}(od, olen, p - l0) }
}
/// bytes below `done` carry the final bits, the others are as resize left them (zero from l0 on)
pub open spec fn appf_inv{XK}(cur: Seq<{I}>, nb: int, d0: Seq<{I}>, l0: int, od: Seq<{K}>, olen: int, done: int) -> bool {
    forall|p: int| 0 <= p < nb ==> #[trigger] bit_at(cur, p) == (if p < done * 8 { appf_bit{XK}(d0, l0, od, olen, p) } else { p < l0 && bit_at(d0, p) })
}
/// what `set_int::<u8>(k, v)` does to the storage (its postcondition, as a predicate)
pub open spec fn byte_set(prev: Seq<{I}>, cur: Seq<{I}>, nb: int, len: int, k: int, v: u8) -> bool {
    forall|b: int| 0 <= b < nb ==> #[trigger] bit_at(cur, b) == (if k * 8 <= b < k * 8 + 8 { b < len && wbit{Y8}(v, (b - k * 8) as nat) } else { bit_at(prev, b) })
}
/// one byte written with the right value: the done region grows by one byte
pub proof fn lemma_appf_step{XK}(prev: Seq<{I}>, cur: Seq<{I}>, nb: int, d0: Seq<{I}>, l0: int, od: Seq<{K}>, olen: int, k: int, v: u8)
    requires
        0 <= k, 0 <= l0, 0 <= olen, l0 + olen <= nb,
        appf_inv{XK}(prev, nb, d0, l0, od, olen, k),
        byte_set(prev, cur, nb, l0 + olen, k, v),
        forall|t: nat| t < 8 ==> #[trigger] wbit{Y8}(v, t) == appf_bit{XK}(d0, l0, od, olen, k * 8 + t),
    ensures appf_inv{XK}(cur, nb, d0, l0, od, olen, k + 1)
{
    assert forall|p: int| 0 <= p < nb implies #[trigger] bit_at(cur, p) == (if p < (k + 1) * 8 { appf_bit{XK}(d0, l0, od, olen, p) } else { p < l0 && bit_at(d0, p) }) by {
        assert(bit_at(prev, p) == (if p < k * 8 { appf_bit{XK}(d0, l0, od, olen, p) } else { p < l0 && bit_at(d0, p) }));
        if k * 8 <= p < k * 8 + 8 {
            let t = (p - k * 8) as nat;
            assert(wbit{Y8}(v, t) == appf_bit{XK}(d0, l0, od, olen, k * 8 + t));
        }
    }
}
/// aligned case: byte sl + i receives chunk i of the operand
pub proof fn lemma_appf_val_aligned{XK}(d0: Seq<{I}>, l0: int, od: Seq<{K}>, olen: int, i: int, b: u8)
    requires 0 <= i, 0 <= l0, l0 % 8 == 0, chunk_is_{K}_u8(od, olen, i, b)
    ensures forall|t: nat| t < 8 ==> #[trigger] wbit{Y8}(b, t) == appf_bit{XK}(d0, l0, od, olen, (l0 / 8 + i) * 8 + t)
{
    vstd::arithmetic::div_mod::lemma_fundamental_div_mod(l0, 8);
    assert forall|t: nat| t < 8 implies #[trigger] wbit{Y8}(b, t) == appf_bit{XK}(d0, l0, od, olen, (l0 / 8 + i) * 8 + t) by {
        assert(wbit{Y8}(b, t) == (i * 8 + t < olen && bit_at{XK}(od, i * 8 + t)));
        assert((l0 / 8 + i) * 8 + t - l0 == i * 8 + t);
    }
}
/// unaligned case, first byte: `x | (b0 << off)` where x is byte sl of the resized subject
pub proof fn lemma_appf_val_first{XK}(rd: Seq<{I}>, len: int, d0: Seq<{I}>, l0: int, od: Seq<{K}>, olen: int, x: u8, b0: u8)
    requires
        0 <= l0, l0 % 8 != 0, 0 <= olen, len == l0 + olen,
        forall|p: int| 0 <= p < len ==> #[trigger] bit_at(rd, p) == (p < l0 && bit_at(d0, p)),
        chunk_is_{I}_u8(rd, len, l0 / 8, x),
        chunk_is_{K}_u8(od, olen, 0, b0),
    ensures forall|t: nat| t < 8 ==> #[trigger] wbit{Y8}(x | (b0 << ((l0 % 8) as u8)), t) == appf_bit{XK}(d0, l0, od, olen, (l0 / 8) * 8 + t)
{
    let off = (l0 % 8) as u8;
    let sl = l0 / 8;
    vstd::arithmetic::div_mod::lemma_fundamental_div_mod(l0, 8);
    assert forall|t: nat| t < 8 implies #[trigger] wbit{Y8}(x | (b0 << off), t) == appf_bit{XK}(d0, l0, od, olen, sl * 8 + t) by {
        lemma_wbit_or{Y8}(x, b0 << off, t as u8);
        lemma_wbit_shl{Y8}(b0, off, t as u8);
        assert(wbit{Y8}(x, t) == (sl * 8 + t < len && bit_at(rd, sl * 8 + t)));
        if t >= off {
            let u = (t - off) as nat;
            assert(wbit{Y8}(b0, u) == (0int * 8 + u < olen && bit_at{XK}(od, 0int * 8 + u)));
            assert(sl * 8 + t - l0 == u);
        }
    }
}
/// unaligned case, byte sl + i (i >= 1): `(pc >> (8 - off)) | (b << off)`; with b == 0 this is also the final partial byte
pub proof fn lemma_appf_val_funnel{XK}(d0: Seq<{I}>, l0: int, od: Seq<{K}>, olen: int, i: int, pc: u8, b: u8)
    requires
        1 <= i, 0 <= l0, l0 % 8 != 0,
        chunk_is_{K}_u8(od, olen, i - 1, pc), chunk_is_{K}_u8(od, olen, i, b),
    ensures forall|t: nat| t < 8 ==> #[trigger] wbit{Y8}((pc >> ((8 - l0 % 8) as u8)) | (b << ((l0 % 8) as u8)), t) == appf_bit{XK}(d0, l0, od, olen, (l0 / 8 + i) * 8 + t)
{
    let off = (l0 % 8) as u8;
    let rev = (8 - off) as u8;
    let sl = l0 / 8;
    vstd::arithmetic::div_mod::lemma_fundamental_div_mod(l0, 8);
    assert forall|t: nat| t < 8 implies #[trigger] wbit{Y8}((pc >> rev) | (b << off), t) == appf_bit{XK}(d0, l0, od, olen, (sl + i) * 8 + t) by {
        lemma_wbit_or{Y8}(pc >> rev, b << off, t as u8);
        lemma_wbit_shr{Y8}(pc, rev, t as u8);
        lemma_wbit_shl{Y8}(b, off, t as u8);
        if t >= off {
            let u = (t - off) as nat;
            assert(wbit{Y8}(b, u) == (i * 8 + u < olen && bit_at{XK}(od, i * 8 + u)));
            assert((sl + i) * 8 + t - l0 == i * 8 + u);
        } else {
            let u = (t + rev) as nat;
            assert(wbit{Y8}(pc, u) == ((i - 1) * 8 + u < olen && bit_at{XK}(od, (i - 1) * 8 + u)));
            assert((sl + i) * 8 + t - l0 == (i - 1) * 8 + u);
        }
    }
}
pub proof fn lemma_appf_zero_chunk{XK}(od: Seq<{K}>, olen: int, i: int)
    requires 0 <= i, i * 8 >= olen
    ensures chunk_is_{K}_u8(od, olen, i, 0u8)
{
    assert forall|t: nat| t < 8 implies #[trigger] wbit{Y8}(0u8, t) == (i * 8 + t < olen && bit_at{XK}(od, i * 8 + t)) by { lemma_wbit_zero{Y8}(t as u8); }
}
pub proof fn lemma_appf_done{XK}(cur: Seq<{I}>, nb: int, d0: Seq<{I}>, l0: int, od: Seq<{K}>, olen: int, done: int)
    requires 0 <= l0, 0 <= olen, appf_inv{XK}(cur, nb, d0, l0, od, olen, done), done * 8 >= l0 + olen
    ensures forall|p: int| 0 <= p < nb ==> #[trigger] bit_at(cur, p) == appf_bit{XK}(d0, l0, od, olen, p)
{
}
/// prepend: after resize and `<<= olen` the low olen bits are zero; whole bytes of the operand are written, the last one OR-ed in
pub open spec fn pref_inv{XK}(cur: Seq<{I}>, nb: int, s0: Seq<{I}>, od: Seq<{K}>, olen: int, done: int) -> bool {
    forall|p: int| 0 <= p < nb ==> #[trigger] bit_at(cur, p) == (if p < done * 8 { sxf{XK}(od, olen, p) } else { bit_at(s0, p) })
}
pub proof fn lemma_pref_byte{XK}(prev: Seq<{I}>, cur: Seq<{I}>, nb: int, len: int, s0: Seq<{I}>, od: Seq<{K}>, olen: int, i: int, b: u8)
    requires
        0 <= i, (i + 1) * 8 <= olen, olen <= len, len <= nb,
        pref_inv{XK}(prev, nb, s0, od, olen, i), chunk_is_{K}_u8(od, olen, i, b), byte_set(prev, cur, nb, len, i, b),
    ensures pref_inv{XK}(cur, nb, s0, od, olen, i + 1)
{
    assert forall|p: int| 0 <= p < nb implies #[trigger] bit_at(cur, p) == (if p < (i + 1) * 8 { sxf{XK}(od, olen, p) } else { bit_at(s0, p) }) by {
        assert(bit_at(prev, p) == (if p < i * 8 { sxf{XK}(od, olen, p) } else { bit_at(s0, p) }));
        if i * 8 <= p < i * 8 + 8 {
            let t = (p - i * 8) as nat;
            assert(wbit{Y8}(b, t) == (i * 8 + t < olen && bit_at{XK}(od, i * 8 + t)));
        }
    }
}
pub proof fn lemma_pref_last{XK}(prev: Seq<{I}>, cur: Seq<{I}>, nb: int, len: int, s0: Seq<{I}>, od: Seq<{K}>, olen: int, i: int, x: u8, b: u8)
    requires
        0 <= i, i * 8 < olen, (i + 1) * 8 >= olen, olen <= len, len <= nb,
        pref_inv{XK}(prev, nb, s0, od, olen, i),
        chunk_is_{I}_u8(prev, len, i, x), chunk_is_{K}_u8(od, olen, i, b), byte_set(prev, cur, nb, len, i, x | b),
        forall|p: int| 0 <= p < olen ==> !#[trigger] bit_at(s0, p),
        forall|p: int| len <= p < nb ==> !#[trigger] bit_at(s0, p),
    ensures forall|p: int| 0 <= p < nb ==> #[trigger] bit_at(cur, p) == (if p < olen { bit_at{XK}(od, p) } else { bit_at(s0, p) })
{
    assert forall|p: int| 0 <= p < nb implies #[trigger] bit_at(cur, p) == (if p < olen { bit_at{XK}(od, p) } else { bit_at(s0, p) }) by {
        assert(bit_at(prev, p) == (if p < i * 8 { sxf{XK}(od, olen, p) } else { bit_at(s0, p) }));
        if i * 8 <= p < i * 8 + 8 {
            let t = (p - i * 8) as nat;
            lemma_wbit_or{Y8}(x, b, t as u8);
            assert(wbit{Y8}(b, t) == (i * 8 + t < olen && bit_at{XK}(od, i * 8 + t)));
            assert(wbit{Y8}(x, t) == (i * 8 + t < len && bit_at(prev, i * 8 + t)));
            if p < olen { assert(!bit_at(s0, p)); }
            if p >= len { assert(!bit_at(s0, p)); }
        }
    }
}
