// truncating cast u64 -> {J}: the low {J.bits} bits are kept
pub proof fn lemma_trunc_bit_u64_{J}(w: u64, t: u64)
    requires t < {J.bits}
    ensures wbit{Y}(w as {J}, t as nat) == wbit(w, t as nat)
{
    assert((((w as {J}) >> (t as {J})) & 1 == 1) == ((w >> t) & 1 == 1)) by(bit_vector) requires t < {J.bits};
}
