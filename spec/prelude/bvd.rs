// Representation invariant and abstract view of Bvd (DESIGN 3.1, 3.2). Word type u64.
impl Bvd {
    pub open spec fn nw(&self) -> int { self.data@.len() as int }
    pub open spec fn cap(&self) -> int { (self.data@.len() * 64) as int }
    /// A-size: the storage is smaller than usize::MAX/2 bits.
    pub open spec fn size_ok(&self) -> bool { self.data@.len() * 64 <= usize::MAX / 2 }
    /// growing to `l` bits is within A-size: either it fits already or the fresh allocation is small enough
    pub open spec fn grow_ok(&self, l: int) -> bool { l <= self.data@.len() * 64 || len_ok(l) }
    pub open spec fn wf(&self) -> bool {
        &&& self.size_ok()
        &&& self.length <= self.data@.len() * 64
        &&& forall|i: int| self.length <= i < self.data@.len() * 64 ==> !bit_at{X}(self.data@, i)
    }
    pub open spec fn bits(&self) -> Seq<bool> {
        Seq::new(self.length as nat, |i: int| bit_at{X}(self.data@, i))
    }
}
/// A-size for a requested length: the allocation for `l` bits stays below usize::MAX/2 bits
pub open spec fn len_ok(l: int) -> bool { l + 64 <= usize::MAX / 2 }
/// number of u64 words a freshly constructed Bvd of `len` bits owns
pub open spec fn fresh_words(len: int) -> int { (len + 63) / 64 }

pub proof fn lemma_zero_seq(d: Seq<u64>)
    requires forall|k: int| 0 <= k < d.len() ==> d[k] == 0u64
    ensures forall|i: int| 0 <= i < d.len() * 64 ==> !bit_at{X}(d, i)
{
    assert forall|i: int| 0 <= i < d.len() * 64 implies !bit_at{X}(d, i) by {
        assert(d[i / 64] == 0u64);
        lemma_wbit_zero{X}((i % 64) as u64);
    }
}

// ---- T3 / R7 stubs for the allocation idiom `repeat(x).take(n).collect::<Vec<u64>>()`
#[verifier::external_body]
pub fn verif_repeat_take_collect(x: u64, n: usize) -> (v: Vec<u64>)
    ensures v@.len() == n, forall|k: int| 0 <= k < n ==> v@[k] == x
{ core::iter::repeat(x).take(n).collect() }

// ---- T1
pub assume_specification<T, A: core::alloc::Allocator> [Vec::<T, A>::into_boxed_slice](v: Vec<T, A>) -> (b: Box<[T], A>)
    ensures b@ == v@;
pub assume_specification [u64::checked_shl] (a: u64, s: u32) -> (r: Option<u64>)
    ensures s < 64 ==> r == Some(a << s), s >= 64 ==> r is None;
#[verifier::external_body]
pub fn verif_iter_map_collect<F: Fn(&u64) -> u64>(s: &[u64], f: F) -> (v: Vec<u64>)
    requires forall|i: int| 0 <= i < s@.len() ==> f.requires((&s[i],)),
    ensures v@.len() == s@.len(), forall|i: int| 0 <= i < s@.len() ==> f.ensures((&s[i],), v@[i]),
{ s.iter().map(f).collect() }
pub assume_specification<T: ?Sized, A: core::alloc::Allocator> [<Box<T, A> as core::convert::AsRef<T>>::as_ref](b: &Box<T, A>) -> (s: &T)
    ensures s == &**b;
// ---- T3 / R7: `(0..n).map(f).collect()` into the boxed word storage
#[verifier::external_body]
pub fn verif_range_map_collect<F: Fn(usize) -> u64>(n: usize, f: F) -> (v: Box<[u64]>)
    requires forall|i: usize| 0 <= i < n ==> f.requires((i,)),
    ensures v@.len() == n, forall|i: usize| 0 <= i < n ==> f.ensures((i,), #[trigger] v@[i as int]),
{ (0..n).map(f).collect() }
// uniform abstract accessors (shared vocabulary of generic code instantiated per implementation, e.g. BitIterator)
impl Bvd {
    pub open spec fn alen(&self) -> usize { self.length }
    pub open spec fn abit(&self, i: int) -> bool { bit_at{X}(self.data@, i) }
}
impl Bvd {
    /// r is the number of significant bits: index of the highest set bit plus one (0 for a zero vector)
    pub open spec fn is_sig(&self, r: int) -> bool {
        &&& 0 <= r <= self.length
        &&& forall|i: int| r <= i < self.length ==> !bit_at{X}(self.data@, i)
        &&& r > 0 ==> bit_at{X}(self.data@, r - 1)
    }
}
