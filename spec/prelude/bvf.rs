// Representation invariant and abstract view of Bvf<{I}, N> (DESIGN 3.1, 3.2).
impl<const N: usize> Bvf<{I}, N> {
    /// A-size: the storage is smaller than usize::MAX/2 bits.
    pub open spec fn size_ok() -> bool { N * {I.bits} <= usize::MAX / 2 }

    pub open spec fn wf(&self) -> bool {
        &&& Self::size_ok()
        &&& self.length <= N * {I.bits}
        &&& forall|i: int| self.length <= i < N * {I.bits} ==> !bit_at{X}(self.data@, i)
    }
    /// the list of bits, index 0 least significant
    pub open spec fn bits(&self) -> Seq<bool> {
        Seq::new(self.length as nat, |i: int| bit_at{X}(self.data@, i))
    }
    pub open spec fn cap() -> int { N * {I.bits} }
    /// bit function (false outside 0..len) and unsigned value
    pub open spec fn bitf(&self) -> spec_fn(int) -> bool { |b: int| 0 <= b < self.length && bit_at{X}(self.data@, b) }
    pub open spec fn val(&self) -> nat { fval(self.bitf(), self.length as nat) }
}


pub proof fn lemma_zero_words{X}<const N: usize>(d: [{I}; N])
    requires forall|k: int| 0 <= k < N ==> d@[k] == 0{I}
    ensures forall|i: int| 0 <= i < N * {I.bits} ==> !bit_at{X}(d@, i)
{
    assert forall|i: int| 0 <= i < N * {I.bits} implies !bit_at{X}(d@, i) by {
        assert(d@[i / {I.bits}] == 0{I});
        lemma_wbit_zero{X}((i % {I.bits}) as {I});
    }
}

/// for a well-formed Bvf the value is the value of the whole storage
pub proof fn lemma_bvf_val_words{X}<const N: usize>(v: &Bvf<{I}, N>)
    requires v.wf()
    ensures v.val() == words_val{X}(v.data@, N as nat), v.val() == fval(seqf{X}(v.data@), {I.bits} * (N as nat))
{
    let n = N as nat;
    lemma_seq_val{X}(v.data@, n);
    lemma_fval_zero_above(seqf{X}(v.data@), v.length as nat, {I.bits} * n);
    lemma_fval_ext(seqf{X}(v.data@), v.bitf(), v.length as nat);
}
