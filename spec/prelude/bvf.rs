// Representation invariant and abstract view of Bvf<{I}, N> (DESIGN 3.1, 3.2).
impl<const N: usize> Bvf<{I}, N> {
    /// A-size: the storage is smaller than usize::MAX/2 bits.
    pub open spec fn size_ok() -> bool { N * {I.bits} <= usize::MAX / 2 }

    pub open spec fn wf(&self) -> bool {
        &&& Self::size_ok()
        &&& self.length <= N * {I.bits}
        &&& forall|i: int| self.length <= i < N * {I.bits} ==> !bit_at{X}(self.data@, i)
    }
    /// the list of bits, index 0 least significant
    pub open spec fn bits(&self) -> Seq<bool> {
        Seq::new(self.length as nat, |i: int| bit_at{X}(self.data@, i))
    }
    pub open spec fn cap() -> int { N * {I.bits} }
}

pub proof fn lemma_zero_words{X}<const N: usize>(d: [{I}; N])
    requires forall|k: int| 0 <= k < N ==> d@[k] == 0{I}
    ensures forall|i: int| 0 <= i < N * {I.bits} ==> !bit_at{X}(d@, i)
{
    assert forall|i: int| 0 <= i < N * {I.bits} implies !bit_at{X}(d@, i) by {
        assert(d@[i / {I.bits}] == 0{I});
        lemma_wbit_zero{X}((i % {I.bits}) as {I});
    }
}
// uniform abstract accessors (shared vocabulary of generic code instantiated per implementation, e.g. BitIterator)
impl<const N: usize> Bvf<{I}, N> {
    pub open spec fn alen(&self) -> usize { self.length }
    pub open spec fn abit(&self, i: int) -> bool { bit_at{X}(self.data@, i) }
}
impl<const N: usize> Bvf<{I}, N> {
    /// r is the number of significant bits: index of the highest set bit plus one (0 for a zero vector)
    pub open spec fn is_sig(&self, r: int) -> bool {
        &&& 0 <= r <= self.length
        &&& forall|i: int| r <= i < self.length ==> !bit_at{X}(self.data@, i)
        &&& r > 0 ==> bit_at{X}(self.data@, r - 1)
    }
}
