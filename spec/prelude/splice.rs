// append / prepend of the dynamic implementation: word-granular splice. Operand words are read as u64 chunks `chunk_is_{J}_u64` of the
// operand's storage (word type {J}, vocabulary suffix {XB}); `sx(u)` = bit u of the operand, zero beyond its length.
pub open spec fn sx{XB}(od: Seq<{J}>, olen: int, u: int) -> bool { 0 <= u < olen && bit_at{XB}(od, u) }
/// bit p of the result of append: the old bits below l0, then the operand's bits, then zero
pub open spec fn app_bit{XB}(d0: Seq<u64>, l0: int, od: Seq<{J}>, olen: int, p: int) -> bool {
    if p < l0 { bit_at(d0, p) } else { sx{XB}(od, olen, p - l0) }
}
/// state of the append loops: words below `done` carry the final bits, the others are still as resize left them (zero from l0 on)
pub open spec fn app_inv{XB}(cur: Seq<u64>, d0: Seq<u64>, l0: int, od: Seq<{J}>, olen: int, done: int) -> bool {
    forall|p: int| 0 <= p < cur.len() * 64 ==> #[trigger] bit_at(cur, p) == (if p < done * 64 { app_bit{XB}(d0, l0, od, olen, p) } else { p < l0 && bit_at(d0, p) })
}
/// aligned case: word sl + i receives chunk i of the operand
pub proof fn lemma_app_aligned{XB}(prev: Seq<u64>, cur: Seq<u64>, d0: Seq<u64>, l0: int, od: Seq<{J}>, olen: int, i: int, b: u64)
    requires
        0 <= i, 0 <= l0, l0 % 64 == 0, l0 / 64 + i < prev.len(),
        app_inv{XB}(prev, d0, l0, od, olen, l0 / 64 + i),
        chunk_is_{J}_u64(od, olen, i, b),
        cur == prev.update(l0 / 64 + i, b),
    ensures app_inv{XB}(cur, d0, l0, od, olen, l0 / 64 + i + 1)
{
    let w = l0 / 64 + i;
    vstd::arithmetic::div_mod::lemma_fundamental_div_mod(l0, 64);
    assert forall|p: int| 0 <= p < cur.len() * 64 implies #[trigger] bit_at(cur, p) == (if p < (w + 1) * 64 { app_bit{XB}(d0, l0, od, olen, p) } else { p < l0 && bit_at(d0, p) }) by {
        vstd::arithmetic::div_mod::lemma_fundamental_div_mod(p, 64);
        assert(bit_at(prev, p) == (if p < w * 64 { app_bit{XB}(d0, l0, od, olen, p) } else { p < l0 && bit_at(d0, p) }));
        if p / 64 == w {
            let t = (p % 64) as nat;
            assert(wbit(b, t) == (i * 64 + t < olen && bit_at{XB}(od, i * 64 + t)));
            assert(p - l0 == i * 64 + t);
        } else {
            assert(cur[p / 64] == prev[p / 64]);
        }
    }
}
/// unaligned case, first word: `data[sl] |= b0 << off`
pub proof fn lemma_app_first{XB}(prev: Seq<u64>, cur: Seq<u64>, d0: Seq<u64>, l0: int, od: Seq<{J}>, olen: int, b0: u64)
    requires
        0 <= l0, l0 % 64 != 0, l0 / 64 < prev.len(),
        app_inv{XB}(prev, d0, l0, od, olen, l0 / 64),
        chunk_is_{J}_u64(od, olen, 0, b0),
        cur == prev.update(l0 / 64, prev[l0 / 64] | (b0 << ((l0 % 64) as u64))),
    ensures app_inv{XB}(cur, d0, l0, od, olen, l0 / 64 + 1)
{
    let w = l0 / 64;
    let off = (l0 % 64) as u64;
    vstd::arithmetic::div_mod::lemma_fundamental_div_mod(l0, 64);
    assert forall|p: int| 0 <= p < cur.len() * 64 implies #[trigger] bit_at(cur, p) == (if p < (w + 1) * 64 { app_bit{XB}(d0, l0, od, olen, p) } else { p < l0 && bit_at(d0, p) }) by {
        vstd::arithmetic::div_mod::lemma_fundamental_div_mod(p, 64);
        assert(bit_at(prev, p) == (if p < w * 64 { app_bit{XB}(d0, l0, od, olen, p) } else { p < l0 && bit_at(d0, p) }));
        if p / 64 == w {
            let t = (p % 64) as u64;
            lemma_wbit_or(prev[w], b0 << off, t);
            lemma_wbit_shl(b0, off, t);
            if t >= off {
                let u = (t - off) as nat;
                assert(wbit(b0, u) == (0int * 64 + u < olen && bit_at{XB}(od, 0int * 64 + u)));
                assert(p - l0 == u);
            }
        } else {
            assert(cur[p / 64] == prev[p / 64]);
        }
    }
}
/// unaligned case, word sl + i (i >= 1): `(prev_chunk >> (64 - off)) | (b << off)`; with b == 0 this is also the final partial word
pub proof fn lemma_app_funnel{XB}(prev: Seq<u64>, cur: Seq<u64>, d0: Seq<u64>, l0: int, od: Seq<{J}>, olen: int, i: int, pc: u64, b: u64)
    requires
        1 <= i, 0 <= l0, l0 % 64 != 0, l0 / 64 + i < prev.len(),
        app_inv{XB}(prev, d0, l0, od, olen, l0 / 64 + i),
        chunk_is_{J}_u64(od, olen, i - 1, pc),
        chunk_is_{J}_u64(od, olen, i, b),
        cur == prev.update(l0 / 64 + i, (pc >> ((64 - l0 % 64) as u64)) | (b << ((l0 % 64) as u64))),
    ensures app_inv{XB}(cur, d0, l0, od, olen, l0 / 64 + i + 1)
{
    let w = l0 / 64 + i;
    let off = (l0 % 64) as u64;
    let rev = (64 - off) as u64;
    vstd::arithmetic::div_mod::lemma_fundamental_div_mod(l0, 64);
    assert forall|p: int| 0 <= p < cur.len() * 64 implies #[trigger] bit_at(cur, p) == (if p < (w + 1) * 64 { app_bit{XB}(d0, l0, od, olen, p) } else { p < l0 && bit_at(d0, p) }) by {
        vstd::arithmetic::div_mod::lemma_fundamental_div_mod(p, 64);
        assert(bit_at(prev, p) == (if p < w * 64 { app_bit{XB}(d0, l0, od, olen, p) } else { p < l0 && bit_at(d0, p) }));
        if p / 64 == w {
            let t = (p % 64) as u64;
            lemma_wbit_or(pc >> rev, b << off, t);
            lemma_wbit_shr(pc, rev, t);
            lemma_wbit_shl(b, off, t);
            if t >= off {
                let u = (t - off) as nat;
                assert(wbit(b, u) == (i * 64 + u < olen && bit_at{XB}(od, i * 64 + u)));
                assert(p - l0 == i * 64 + u);
            } else {
                let u = (t + rev) as nat;
                assert(wbit(pc, u) == ((i - 1) * 64 + u < olen && bit_at{XB}(od, (i - 1) * 64 + u)));
                assert(p - l0 == (i - 1) * 64 + u);
            }
        } else {
            assert(cur[p / 64] == prev[p / 64]);
        }
    }
}
/// a chunk index at or beyond the operand's length reads as zero
pub proof fn lemma_app_zero_chunk{XB}(od: Seq<{J}>, olen: int, i: int)
    requires 0 <= i, i * 64 >= olen
    ensures chunk_is_{J}_u64(od, olen, i, 0u64)
{
    assert forall|t: nat| t < 64 implies #[trigger] wbit(0u64, t) == (i * 64 + t < olen && bit_at{XB}(od, i * 64 + t)) by { lemma_wbit_zero(t as u64); }
}
/// all words that can hold operand bits are done: the storage carries exactly the appended bit list
pub proof fn lemma_app_done{XB}(cur: Seq<u64>, d0: Seq<u64>, l0: int, od: Seq<{J}>, olen: int, done: int)
    requires 0 <= l0, 0 <= olen, app_inv{XB}(cur, d0, l0, od, olen, done), done * 64 >= l0 + olen || done >= cur.len()
    ensures forall|p: int| 0 <= p < cur.len() * 64 ==> #[trigger] bit_at(cur, p) == app_bit{XB}(d0, l0, od, olen, p)
{
}
/// prepend: the storage after `resize` and `<<= olen` (low olen bits zero), then whole words of the operand copied in, the last one OR-ed
pub open spec fn pre_inv{XB}(cur: Seq<u64>, s0: Seq<u64>, od: Seq<{J}>, olen: int, done: int) -> bool {
    forall|p: int| 0 <= p < cur.len() * 64 ==> #[trigger] bit_at(cur, p) == (if p < done * 64 { sx{XB}(od, olen, p) } else { bit_at(s0, p) })
}
pub proof fn lemma_pre_word{XB}(prev: Seq<u64>, cur: Seq<u64>, s0: Seq<u64>, od: Seq<{J}>, olen: int, i: int, b: u64)
    requires
        0 <= i < prev.len(), pre_inv{XB}(prev, s0, od, olen, i), chunk_is_{J}_u64(od, olen, i, b), cur == prev.update(i, b),
    ensures pre_inv{XB}(cur, s0, od, olen, i + 1)
{
    assert forall|p: int| 0 <= p < cur.len() * 64 implies #[trigger] bit_at(cur, p) == (if p < (i + 1) * 64 { sx{XB}(od, olen, p) } else { bit_at(s0, p) }) by {
        vstd::arithmetic::div_mod::lemma_fundamental_div_mod(p, 64);
        assert(bit_at(prev, p) == (if p < i * 64 { sx{XB}(od, olen, p) } else { bit_at(s0, p) }));
        if p / 64 == i {
            let t = (p % 64) as nat;
            assert(wbit(b, t) == (i * 64 + t < olen && bit_at{XB}(od, i * 64 + t)));
        } else {
            assert(cur[p / 64] == prev[p / 64]);
        }
    }
}
/// the last word is OR-ed: below olen the shifted storage is zero, at and above olen the chunk is zero
pub proof fn lemma_pre_last{XB}(prev: Seq<u64>, cur: Seq<u64>, s0: Seq<u64>, od: Seq<{J}>, olen: int, i: int, b: u64)
    requires
        0 <= i < prev.len(), pre_inv{XB}(prev, s0, od, olen, i), chunk_is_{J}_u64(od, olen, i, b), cur == prev.update(i, prev[i] | b),
        forall|p: int| 0 <= p < olen && p < s0.len() * 64 ==> !#[trigger] bit_at(s0, p),
        (i + 1) * 64 >= olen, i * 64 < olen, s0.len() == prev.len(),
    ensures forall|p: int| 0 <= p < cur.len() * 64 ==> #[trigger] bit_at(cur, p) == (if p < olen { bit_at{XB}(od, p) } else { bit_at(s0, p) })
{
    assert forall|p: int| 0 <= p < cur.len() * 64 implies #[trigger] bit_at(cur, p) == (if p < olen { bit_at{XB}(od, p) } else { bit_at(s0, p) }) by {
        vstd::arithmetic::div_mod::lemma_fundamental_div_mod(p, 64);
        assert(bit_at(prev, p) == (if p < i * 64 { sx{XB}(od, olen, p) } else { bit_at(s0, p) }));
        if p / 64 == i {
            let t = (p % 64) as u64;
            lemma_wbit_or(prev[i], b, t);
            assert(wbit(b, t as nat) == (i * 64 + t < olen && bit_at{XB}(od, i * 64 + t)));
            if p < olen { assert(!bit_at(s0, p)); }
        } else {
            assert(cur[p / 64] == prev[p / 64]);
        }
    }
}
