// {J} and {I} have different widths: the same-width branch of the code is dead; this lemma is never applicable
pub proof fn lemma_cast_same_{J}_{I}(w: {J}, t: {I})
    requires false
    ensures wbit((w as {I}), t as nat) == wbit{XJ}(w, t as nat)
{
}
