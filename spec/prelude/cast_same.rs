// casts between word types of the same width keep every bit ({J} -> {I})
pub proof fn lemma_cast_same_{J}_{I}(w: {J}, t: {I})
    requires {I.bits} == {J.bits}, t < {I.bits}
    ensures wbit((w as {I}), t as nat) == wbit{XJ}(w, t as nat)
{
    assert((((w as {I}) >> t) & 1 == 1) == (((w >> (t as {J})) & 1) == 1)) by(bit_vector)
        requires t < {I.bits};
}
