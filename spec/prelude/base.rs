// Hand-written specification vocabulary shared by every generated file. No executable code of the
// crate lives here: only mirror *declarations* of the crate's traits (R8), the panic model (R4),
// and assumed contracts of std functions (trusted base T1).

/// R4: every explicit `panic!`/`assert!` of the crate is rewritten to a call of this function.
/// Reaching it obliges the unit's documented panic condition (`panics_if`) to hold.
#[verifier::external_body]
pub fn verif_panic(Ghost(ok): Ghost<bool>) -> !
    requires ok
{ panic!() }

// ---- mirror declarations of the crate's own utility traits (bodies are extracted, never retyped)
pub trait Constants: Sized {
    const ZERO: Self;
    const ONE: Self;
    const MIN: Self;
    const MAX: Self;
    const BITS: usize;
}

pub trait StaticCast<U>: Sized {
    fn cast_from(u: U) -> Self;
    fn cast_to(self) -> U;
}

pub trait Integer: Constants {
    fn mask(length: usize) -> Self;
    fn cadd(&mut self, rhs: Self, carry: Self) -> Self;
    fn csub(&mut self, rhs: Self, carry: Self) -> Self;
    fn wmul(&self, rhs: Self) -> (Self, Self);
    fn leading_zeros(&self) -> usize;
    fn leading_ones(&self) -> usize;
    fn trailing_zeros(&self) -> usize;
    fn trailing_ones(&self) -> usize;
}

// ---- R12: mirror conversion traits with a precondition hook and a relational postcondition
// (vstd's From/TryFrom spec traits have no `_req`). The blanket impls mirror std's.
pub trait VFrom<T>: Sized {
    spec fn v_from_req(value: T) -> bool;
    spec fn v_from_post(value: T, r: Self) -> bool;
    fn v_from(value: T) -> (r: Self)
        requires Self::v_from_req(value)
        ensures Self::v_from_post(value, r);
}
pub trait VInto<T>: Sized {
    spec fn v_into_req(self) -> bool;
    spec fn v_into_post(self, r: T) -> bool;
    fn v_into(self) -> (r: T)
        requires self.v_into_req()
        ensures self.v_into_post(r);
}
impl<T, U: VFrom<T>> VInto<U> for T {
    open spec fn v_into_req(self) -> bool { U::v_from_req(self) }
    open spec fn v_into_post(self, r: U) -> bool { U::v_from_post(self, r) }
    fn v_into(self) -> (r: U) { U::v_from(self) }
}
pub trait VTryFrom<T>: Sized {
    type Error;
    spec fn v_try_from_req(value: T) -> bool;
    spec fn v_try_from_post(value: T, r: Result<Self, Self::Error>) -> bool;
    fn v_try_from(value: T) -> (r: Result<Self, Self::Error>)
        requires Self::v_try_from_req(value)
        ensures Self::v_try_from_post(value, r);
}
pub trait VTryInto<T>: Sized {
    type Error;
    spec fn v_try_into_req(self) -> bool;
    spec fn v_try_into_post(self, r: Result<T, Self::Error>) -> bool;
    fn v_try_into(self) -> (r: Result<T, Self::Error>)
        requires self.v_try_into_req()
        ensures self.v_try_into_post(r);
}
impl<T, U: VTryFrom<T>> VTryInto<U> for T {
    type Error = U::Error;
    open spec fn v_try_into_req(self) -> bool { U::v_try_from_req(self) }
    open spec fn v_try_into_post(self, r: Result<U, U::Error>) -> bool { U::v_try_from_post(self, r) }
    fn v_try_into(self) -> (r: Result<U, U::Error>) { U::v_try_from(self) }
}

// ---- T1: assumed contracts of std functions not specified by vstd
pub assume_specification<T, E, U, F: FnOnce(T) -> U> [Result::<T,E>::map_or](r: Result<T,E>, default: U, f: F) -> (out: U)
    requires r is Ok ==> f.requires((r->Ok_0,)),
    ensures r is Ok ==> f.ensures((r->Ok_0,), out), r is Err ==> out == default;

// ---- T3 / R7: iterator-adapter expressions are wrapped in functions whose body IS the replaced
// expression; their contracts (stated over the closure's own requires/ensures) are assumed.
#[verifier::external_body]
pub fn verif_iter_all<T, F: Fn(&T) -> bool>(s: &[T], f: F) -> (r: bool)
    requires forall|i: int| 0 <= i < s@.len() ==> f.requires((&s[i],)),
    ensures
        r ==> forall|i: int| 0 <= i < s@.len() ==> f.ensures((&s[i],), true),
        !r ==> exists|i: int| 0 <= i < s@.len() && f.ensures((&s[i],), false),
{ s.iter().all(f) }
#[verifier::external_body]
pub fn verif_array_iter_all<T, const M: usize, F: Fn(&T) -> bool>(s: &[T; M], f: F) -> (r: bool)
    requires forall|i: int| 0 <= i < M ==> f.requires((&s[i],)),
    ensures
        r ==> forall|i: int| 0 <= i < M ==> f.ensures((&s[i],), true),
        !r ==> exists|i: int| 0 <= i < M && f.ensures((&s[i],), false),
{ s.iter().all(f) }
pub assume_specification<T, const N: usize> [<[T; N] as core::convert::AsRef<[T]>>::as_ref](a: &[T; N]) -> (s: &[T])
    ensures s@ == a@;

// ---- mirror comparison traits with a precondition hook (vstd's PartialEq/PartialOrd spec traits have none)
pub trait VPartialEq<Rhs>: Sized {
    spec fn v_cmp_req(&self, other: &Rhs) -> bool;
    fn eq(&self, other: &Rhs) -> (r: bool)
        requires self.v_cmp_req(other);
}
pub trait VPartialOrd<Rhs>: Sized {
    spec fn v_ord_req(&self, other: &Rhs) -> bool;
    fn partial_cmp(&self, other: &Rhs) -> (r: Option<core::cmp::Ordering>)
        requires self.v_ord_req(other);
}

// R12: std's blanket `impl<T, U: Into<T>> TryFrom<U> for T` (infallible conversion seen as a fallible one), mirrored
impl<T, U: VFrom<T>> VTryFrom<T> for U {
    type Error = core::convert::Infallible;
    open spec fn v_try_from_req(value: T) -> bool { U::v_from_req(value) }
    open spec fn v_try_from_post(value: T, r: Result<U, core::convert::Infallible>) -> bool { r is Ok && U::v_from_post(value, r->Ok_0) }
    fn v_try_from(value: T) -> (r: Result<U, core::convert::Infallible>) { Ok(U::v_from(value)) }
}

// ---- T3 / R7 (generic form): the allocation idiom `repeat(x).take(n).collect::<Vec<T>>()`
#[verifier::external_body]
pub fn verif_repeat_take_collect_g<T: Copy>(x: T, n: usize) -> (v: Vec<T>)
    ensures v@.len() == n, forall|k: int| 0 <= k < n ==> v@[k] == x
{ core::iter::repeat(x).take(n).collect() }
