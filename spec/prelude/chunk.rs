// chunk `idx` of width {J.bits} ({J}) of a little-endian word sequence over {I}, limited to the first `lim` bits
pub open spec fn chunk_is_{I}_{J}(data: Seq<{I}>, lim: int, idx: int, v: {J}) -> bool {
    forall|t: nat| t < {J.bits} ==> #[trigger] wbit{Y}(v, t) == (idx * {J.bits} + t < lim && bit_at{X}(data, idx * {J.bits} + t))
}
/// a {J} value is determined by its chunk description
pub proof fn lemma_chunk_unique_{I}_{J}(data: Seq<{I}>, lim: int, idx: int, a: {J}, b: {J})
    requires chunk_is_{I}_{J}(data, lim, idx, a), chunk_is_{I}_{J}(data, lim, idx, b)
    ensures a == b
{
    assert forall|j: {J}| j < {J.bits} implies wbit{Y}(a, j as nat) == wbit{Y}(b, j as nat) by { }
    lemma_wbit_ext{Y}(a, b);
}
/// beyond the limit every chunk is zero
pub proof fn lemma_empty_chunk_{I}_{J}(data: Seq<{I}>, lim: int, idx: int)
    requires idx * {J.bits} >= lim
    ensures chunk_is_{I}_{J}(data, lim, idx, 0{J})
{
    assert forall|t: nat| t < {J.bits} implies #[trigger] wbit{Y}(0{J}, t) == (idx * {J.bits} + t < lim && bit_at{X}(data, idx * {J.bits} + t)) by {
        lemma_wbit_zero{Y}(t as {J});
    }
}
/// the value of chunk idx (a total function: zero beyond the limit)
pub open spec fn chunk_val_{I}_{J}(data: Seq<{I}>, lim: int, idx: int) -> {J} {
    choose|c: {J}| chunk_is_{I}_{J}(data, lim, idx, c)
}
pub proof fn lemma_chunk_val_{I}_{J}(data: Seq<{I}>, lim: int, idx: int, c: {J})
    requires chunk_is_{I}_{J}(data, lim, idx, c)
    ensures chunk_val_{I}_{J}(data, lim, idx) == c, chunk_is_{I}_{J}(data, lim, idx, chunk_val_{I}_{J}(data, lim, idx))
{
    lemma_chunk_unique_{I}_{J}(data, lim, idx, c, chunk_val_{I}_{J}(data, lim, idx));
}
/// chunk_val is total: some {J} value has exactly the described bits
pub proof fn lemma_chunk_val_ok_{I}_{J}(data: Seq<{I}>, lim: int, idx: int)
    ensures chunk_is_{I}_{J}(data, lim, idx, chunk_val_{I}_{J}(data, lim, idx))
{
    let p = |t: nat| idx * {J.bits} + t < lim && bit_at{X}(data, idx * {J.bits} + t);
    let v = lemma_bits_to_word{Y}(p, {J.bits});
    assert(chunk_is_{I}_{J}(data, lim, idx, v));
}
