// chunk `idx` of width {J.bits} of a little-endian word sequence over {I}, limited to the first `lim` bits
pub open spec fn chunk_is_{J}(data: Seq<{I}>, lim: int, idx: int, v: {J}) -> bool {
    forall|t: nat| t < {J.bits} ==> #[trigger] wbit_{J}(v, t) == (idx * {J.bits} + t < lim && bit_at(data, idx * {J.bits} + t))
}
/// a J value is determined by its chunk description
pub proof fn lemma_chunk_unique_{J}(data: Seq<{I}>, lim: int, idx: int, a: {J}, b: {J})
    requires chunk_is_{J}(data, lim, idx, a), chunk_is_{J}(data, lim, idx, b)
    ensures a == b
{
    assert forall|j: {J}| j < {J.bits} implies wbit_{J}(a, j as nat) == wbit_{J}(b, j as nat) by { }
    lemma_wbit_ext_{J}(a, b);
}
