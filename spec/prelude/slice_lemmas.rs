// Lemmas for copy_range: words of the result in terms of the source words (word type {I}).
#[verifier::opaque]
pub open spec fn funnel_word(src: Seq<{I}>, k: int, offset: int, slide: int) -> {I} {
    if slide > 0 {
        (src[k + offset] >> (slide as {I})) | ((if k + offset + 1 < src.len() { src[k + offset + 1] } else { 0{I} }) << (({I.bits} - slide) as {I}))
    } else {
        src[k + offset]
    }
}
pub proof fn lemma_copy_range_words(src: Seq<{I}>, pre: Seq<{I}>, s: int, length: int)
    requires
        pre.len() == src.len(), 0 <= s, 0 <= length, s + length <= src.len() * {I.bits},
        forall|k: int| 0 <= k < (length + {I.bits} - 1) / {I.bits} ==> pre[k] == funnel_word(src, k, s / {I.bits}, s % {I.bits}),
        forall|k: int| (length + {I.bits} - 1) / {I.bits} <= k < src.len() ==> pre[k] == 0{I},
    ensures
        forall|b: int| 0 <= b < ((length + {I.bits} - 1) / {I.bits}) * {I.bits} ==> bit_at(pre, b) == (s + b < src.len() * {I.bits} && bit_at(src, s + b)),
        forall|b: int| ((length + {I.bits} - 1) / {I.bits}) * {I.bits} <= b < src.len() * {I.bits} ==> !bit_at(pre, b),
{
    reveal(funnel_word);
    let n = src.len() as int;
    let nw = (length + {I.bits} - 1) / {I.bits};
    let offset = s / {I.bits};
    let slide = s % {I.bits};
    assert forall|b: int| 0 <= b < nw * {I.bits} implies bit_at(pre, b) == (s + b < n * {I.bits} && bit_at(src, s + b)) by {
        let k = b / {I.bits};
        let j = b % {I.bits};
        assert(k < nw);
        assert(k * {I.bits} < length);
        assert((k + offset) * {I.bits} < n * {I.bits});
        assert(k + offset < n);
        assert(pre[k] == funnel_word(src, k, offset, slide));
        lemma_add_idx(s, b);
        if slide > 0 {
            let w1 = src[k + offset];
            let w2 = if k + offset + 1 < n { src[k + offset + 1] } else { 0{I} };
            lemma_funnel(w1, w2, slide as {I}, j as {I});
            if j + slide >= {I.bits} && k + offset + 1 >= n { lemma_wbit_zero((j + slide - {I.bits}) as {I}); }
        }
    }
    assert forall|b: int| nw * {I.bits} <= b < n * {I.bits} implies !bit_at(pre, b) by {
        assert(pre[b / {I.bits}] == 0{I});
        lemma_wbit_zero((b % {I.bits}) as {I});
    }
}
// the final mask of the word holding bit `length` (a no-op when length is a multiple of the word size)
pub proof fn lemma_copy_range_mask(pre: Seq<{I}>, post: Seq<{I}>, length: int)
    requires
        0 <= length <= pre.len() * {I.bits}, post.len() == pre.len(),
        forall|b: int| ((length + {I.bits} - 1) / {I.bits}) * {I.bits} <= b < pre.len() * {I.bits} ==> !bit_at(pre, b),
        post == (if length / {I.bits} < pre.len() {
            pre.update(length / {I.bits}, pre[length / {I.bits}] & mask_spec((if length == 0 { {I.bits} as int } else { (length - 1) % {I.bits} + 1 }) as nat))
        } else { pre }),
    ensures
        forall|b: int| 0 <= b < pre.len() * {I.bits} ==> bit_at(post, b) == (b < length && bit_at(pre, b)),
{
    let n = pre.len() as int;
    let li = length / {I.bits};
    let nw = (length + {I.bits} - 1) / {I.bits};
    let m = if length == 0 { {I.bits} as int } else { (length - 1) % {I.bits} + 1 };
    assert forall|b: int| 0 <= b < n * {I.bits} implies bit_at(post, b) == (b < length && bit_at(pre, b)) by {
        let k = b / {I.bits};
        let j = b % {I.bits};
        if k == li {
            lemma_and_mask(pre[li], m as {I}, j as {I});
            if length % {I.bits} == 0 {
                assert(li == nw);
                assert(!bit_at(pre, b));
            } else {
                assert(m == length % {I.bits});
                assert((b < length) == (j < m));
            }
        } else {
            assert(post[k] == pre[k]);
            if k > li { assert(b >= nw * {I.bits}); assert(!bit_at(pre, b)); }
        }
    }
}
pub proof fn lemma_copy_range(src: Seq<{I}>, pre: Seq<{I}>, post: Seq<{I}>, s: int, length: int)
    requires
        pre.len() == src.len(), post.len() == src.len(), 0 <= s, 0 <= length, s + length <= src.len() * {I.bits},
        forall|k: int| 0 <= k < (length + {I.bits} - 1) / {I.bits} ==> pre[k] == funnel_word(src, k, s / {I.bits}, s % {I.bits}),
        forall|k: int| (length + {I.bits} - 1) / {I.bits} <= k < src.len() ==> pre[k] == 0{I},
        post == (if length / {I.bits} < pre.len() {
            pre.update(length / {I.bits}, pre[length / {I.bits}] & mask_spec((if length == 0 { {I.bits} as int } else { (length - 1) % {I.bits} + 1 }) as nat))
        } else { pre }),
    ensures
        forall|b: int| 0 <= b < src.len() * {I.bits} ==> #[trigger] bit_at(post, b) == (b < length && bit_at(src, s + b)),
{
    lemma_copy_range_words(src, pre, s, length);
    lemma_copy_range_mask(pre, post, length);
    assert forall|b: int| 0 <= b < src.len() * {I.bits} implies #[trigger] bit_at(post, b) == (b < length && bit_at(src, s + b)) by {
        if b < length {
            assert(b < ((length + {I.bits} - 1) / {I.bits}) * {I.bits});
            assert(bit_at(pre, b) == (s + b < src.len() * {I.bits} && bit_at(src, s + b)));
        }
    }
}
// same as lemma_copy_range but for a result shorter than the source (Bvd allocates exactly the words needed)
pub proof fn lemma_copy_range_general(src: Seq<{I}>, pre: Seq<{I}>, post: Seq<{I}>, s: int, length: int)
    requires
        pre.len() == (length + {I.bits} - 1) / {I.bits}, post.len() == pre.len(), 0 <= s, 0 <= length, s + length <= src.len() * {I.bits},
        forall|k: int| 0 <= k < pre.len() ==> pre[k] == funnel_word(src, k, s / {I.bits}, s % {I.bits}),
        post == (if length / {I.bits} < pre.len() {
            pre.update(length / {I.bits}, pre[length / {I.bits}] & mask_spec((if length == 0 { {I.bits} as int } else { (length - 1) % {I.bits} + 1 }) as nat))
        } else { pre }),
    ensures
        forall|b: int| 0 <= b < post.len() * {I.bits} ==> #[trigger] bit_at(post, b) == (b < length && bit_at(src, s + b)),
{
    reveal(funnel_word);
    let nw = pre.len() as int;
    let offset = s / {I.bits};
    let slide = s % {I.bits};
    let li = length / {I.bits};
    let m = if length == 0 { {I.bits} as int } else { (length - 1) % {I.bits} + 1 };
    assert forall|b: int| 0 <= b < nw * {I.bits} implies #[trigger] bit_at(post, b) == (b < length && bit_at(src, s + b)) by {
        let k = b / {I.bits};
        let j = b % {I.bits};
        assert(k * {I.bits} < length);
        assert(k + offset < src.len());
        assert(pre[k] == funnel_word(src, k, offset, slide));
        lemma_add_idx(s, b);
        if slide > 0 {
            let w1 = src[k + offset];
            let w2 = if k + offset + 1 < src.len() { src[k + offset + 1] } else { 0{I} };
            lemma_funnel(w1, w2, slide as {I}, j as {I});
            if j + slide >= {I.bits} && k + offset + 1 >= src.len() { lemma_wbit_zero((j + slide - {I.bits}) as {I}); }
        }
        // now bit_at(pre, b) == (s + b < src.len()*WB && bit_at(src, s + b))
        if k == li {
            lemma_and_mask(pre[li], m as {I}, j as {I});
            assert(m == length % {I.bits});
            assert((b < length) == (j < m));
        } else {
            assert(post[k] == pre[k]);
            assert(k < li);
        }
    }
}
