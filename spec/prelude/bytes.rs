// Byte serialisation (to_vec): byte j of the little-endian image carries bits 8j..8j+7 of the vector (T3 stub for the buffer allocation)
#[verifier::external_body]
pub fn verif_repeat_take_collect_u8(x: u8, n: usize) -> (v: Vec<u8>)
    ensures v@.len() == n, forall|k: int| 0 <= k < n ==> v@[k] == x
{ core::iter::repeat(x).take(n).collect() }
pub open spec fn byte_bit(b: u8, t: nat) -> bool { (b >> (t as u8)) & 1 == 1 }
/// byte k of a storage word: bit t of `(w >> 8k) as u8` is bit 8k + t of w
pub proof fn lemma_word_byte{X}(w: {I}, k: {I}, t: u8)
    requires k < {I.bytes}, t < 8
    ensures byte_bit((w >> ((k * 8) as {I})) as u8, t as nat) == wbit{X}(w, (k * 8 + t) as nat)
{
    assert(((((w >> ((k * 8) as {I})) as u8) >> t) & 1 == 1) == ((w >> ((k * 8 + (t as {I})) as {I})) & 1 == 1)) by(bit_vector)
        requires k < {I.bytes}, t < 8;
}
/// ... and the same through the `& 0xff` form used by the dynamic implementation
pub proof fn lemma_word_byte_mask{X}(w: {I}, k: {I}, t: u8)
    requires k < {I.bytes}, t < 8
    ensures byte_bit(((w >> ((k * 8) as {I})) & 0xff) as u8, t as nat) == wbit{X}(w, (k * 8 + t) as nat)
{
    assert((((((w >> ((k * 8) as {I})) & 0xff) as u8) >> t) & 1 == 1) == ((w >> ((k * 8 + (t as {I})) as {I})) & 1 == 1)) by(bit_vector)
        requires k < {I.bytes}, t < 8;
}
/// the little-endian byte image of the first `len` bits of a word sequence
pub open spec fn le_image{X}(data: Seq<{I}>, len: int, bytes: Seq<u8>) -> bool {
    &&& bytes.len() == (len + 7) / 8
    &&& forall|j: int, t: nat| 0 <= j < bytes.len() && t < 8 ==> #[trigger] byte_bit(bytes[j], t) == (8 * j + t < len && bit_at{X}(data, 8 * j + t))
}
