// from_bytes: packing a byte string into storage words by repeated `data[j] = (data[j] << 8) | byte`, bytes visited from the
// most significant (index n-1) down to index 0, byte k going to word k / {I.bytes}. `p` = index of the last byte packed so far
// (p == n: nothing packed; p == 0: done). A partially packed word holds its packed bytes shifted down to bit 0.
/// first packed byte of word j when bytes p.. have been packed
pub open spec fn pk_start{X}(j: int, p: int) -> int { if p > j * {I.bytes} { p } else { j * {I.bytes} } }
/// bit t of word j in that state
pub open spec fn pk_bit{X}(bytes: Seq<u8>, j: int, p: int, t: nat) -> bool {
    let s = pk_start{X}(j, p) + (t as int) / 8;
    s < bytes.len() && s < (j + 1) * {I.bytes} && byte_bit(bytes[s], ((t as int) % 8) as nat)
}
pub open spec fn packed{X}(data: Seq<{I}>, bytes: Seq<u8>, p: int) -> bool {
    forall|j: int, t: nat| 0 <= j < data.len() && t < {I.bits} ==> #[trigger] wbit{X}(data[j], t) == pk_bit{X}(bytes, j, p, t)
}
/// all-zero storage: nothing packed
pub proof fn lemma_pack_init{X}(data: Seq<{I}>, bytes: Seq<u8>)
    requires forall|j: int| 0 <= j < data.len() ==> data[j] == 0
    ensures packed{X}(data, bytes, bytes.len() as int)
{
    assert forall|j: int, t: nat| 0 <= j < data.len() && t < {I.bits} implies #[trigger] wbit{X}(data[j], t) == pk_bit{X}(bytes, j, bytes.len() as int, t) by {
        lemma_wbit_zero{X}(t as {I});
    }
}
/// shifting a byte into a word: bit t of (w << 8) | b
pub proof fn lemma_shl8_or{X}(w: {I}, b: u8, t: {I})
    requires t < {I.bits}
    ensures wbit{X}((w << 8) | (b as {I}), t as nat) == (if t < 8 { byte_bit(b, t as nat) } else { wbit{X}(w, (t - 8) as nat) })
{
    assert(((((w << 8) | (b as {I})) >> t) & 1 == 1) == (if t < 8 { (b >> (t as u8)) & 1 == 1 } else { (w >> ((t - 8) as {I})) & 1 == 1 })) by(bit_vector)
        requires t < {I.bits};
}
/// one iteration: byte p-1 is shifted into word (p-1) / {I.bytes}
pub proof fn lemma_pack_step{X}(d0: Seq<{I}>, d1: Seq<{I}>, bytes: Seq<u8>, p: int)
    requires
        1 <= p <= bytes.len(), packed{X}(d0, bytes, p), (p - 1) / {I.bytes} < d0.len(),
        d1 == d0.update((p - 1) / {I.bytes}, (d0[(p - 1) / {I.bytes}] << 8) | (bytes[p - 1] as {I})),
    ensures packed{X}(d1, bytes, p - 1)
{
    let j0 = (p - 1) / {I.bytes};
    vstd::arithmetic::div_mod::lemma_fundamental_div_mod(p - 1, {I.bytes});
    assert(j0 * {I.bytes} <= p - 1 < (j0 + 1) * {I.bytes});
    assert forall|j: int, t: nat| 0 <= j < d1.len() && t < {I.bits} implies #[trigger] wbit{X}(d1[j], t) == pk_bit{X}(bytes, j, p - 1, t) by {
        assert(wbit{X}(d0[j], t) == pk_bit{X}(bytes, j, p, t));
        if j == j0 {
            lemma_shl8_or{X}(d0[j0], bytes[p - 1], t as {I});
            assert(pk_start{X}(j0, p) == p && pk_start{X}(j0, p - 1) == p - 1);
            if t >= 8 {
                let u = (t - 8) as nat;
                assert(wbit{X}(d0[j0], u) == pk_bit{X}(bytes, j0, p, u));
                assert((t as int) / 8 == (u as int) / 8 + 1 && (t as int) % 8 == (u as int) % 8) by {
                    vstd::arithmetic::div_mod::lemma_fundamental_div_mod(u as int, 8);
                    vstd::arithmetic::div_mod::lemma_fundamental_div_mod_converse(t as int, 8, (u as int) / 8 + 1, (u as int) % 8);
                }
            } else {
                assert((t as int) / 8 == 0 && (t as int) % 8 == t);
            }
        } else if j < j0 {
            assert((j + 1) * {I.bytes} <= j0 * {I.bytes});
        } else {
            assert(j * {I.bytes} >= (j0 + 1) * {I.bytes});
        }
    }
}
/// all bytes packed: the storage is the little-endian image of the byte string, and every bit beyond 8n is zero
pub proof fn lemma_pack_done{X}(data: Seq<{I}>, bytes: Seq<u8>)
    requires packed{X}(data, bytes, 0), bytes.len() * 8 <= data.len() * {I.bits}
    ensures
        le_image{X}(data, (bytes.len() * 8) as int, bytes),
        forall|i: int| bytes.len() * 8 <= i < data.len() * {I.bits} ==> !bit_at{X}(data, i),
{
    let n = bytes.len() as int;
    assert forall|b: int| 0 <= b < data.len() * {I.bits} implies #[trigger] bit_at{X}(data, b) == (b < 8 * n && byte_bit(bytes[b / 8], (b % 8) as nat)) by {
        let j = b / {I.bits};
        let t = (b % {I.bits}) as nat;
        vstd::arithmetic::div_mod::lemma_fundamental_div_mod(b, {I.bits});
        assert(0 <= j < data.len());
        assert(wbit{X}(data[j], t) == pk_bit{X}(bytes, j, 0, t));
        assert(pk_start{X}(j, 0) == j * {I.bytes});
        let q = (t as int) / 8;
        let r = (t as int) % 8;
        vstd::arithmetic::div_mod::lemma_fundamental_div_mod(t as int, 8);
        assert(b == 8 * (j * {I.bytes} + q) + r);
        vstd::arithmetic::div_mod::lemma_fundamental_div_mod_converse(b, 8, j * {I.bytes} + q, r);
        assert(q < {I.bytes});
    }
    assert((n * 8 + 7) / 8 == n) by { vstd::arithmetic::div_mod::lemma_fundamental_div_mod_converse(n * 8 + 7, 8, n, 7); }
    assert forall|jb: int, t: nat| 0 <= jb < bytes.len() && t < 8 implies #[trigger] byte_bit(bytes[jb], t) == (8 * jb + t < n * 8 && bit_at{X}(data, 8 * jb + t)) by {
        let b = 8 * jb + t;
        vstd::arithmetic::div_mod::lemma_fundamental_div_mod_converse(b, 8, jb, t as int);
        assert(bit_at{X}(data, b) == (b < 8 * n && byte_bit(bytes[b / 8], (b % 8) as nat)));
    }
}
/// index identity of the dynamic implementation: with n + offset == l * {I.bytes}, byte k = n-1-i goes to word l-1-(i+offset)/{I.bytes} == k/{I.bytes}
pub proof fn lemma_pack_index{X}(l: int, k: int)
    requires 0 <= k < l * {I.bytes}
    ensures (l * {I.bytes} - 1 - k) / {I.bytes} == l - 1 - k / {I.bytes}
{
    vstd::arithmetic::div_mod::lemma_fundamental_div_mod(k, {I.bytes});
    vstd::arithmetic::div_mod::lemma_fundamental_div_mod_converse(l * {I.bytes} - 1 - k, {I.bytes}, l - 1 - k / {I.bytes}, {I.bytes} - 1 - k % {I.bytes});
}
/// the padding of the dynamic implementation: n + offset is the whole number of words
pub proof fn lemma_pack_offset{X}(n: int)
    requires 0 <= n
    ensures n + ({I.bytes} - n % {I.bytes}) % {I.bytes} == ((n + {I.bytes} - 1) / {I.bytes}) * {I.bytes}
{
    vstd::arithmetic::div_mod::lemma_fundamental_div_mod(n, {I.bytes});
    let q = n / {I.bytes};
    let r = n % {I.bytes};
    if r == 0 {
        assert(({I.bytes} - r) % {I.bytes} == 0) by { vstd::arithmetic::div_mod::lemma_fundamental_div_mod_converse({I.bytes} - r, {I.bytes}, 1, 0); }
        vstd::arithmetic::div_mod::lemma_fundamental_div_mod_converse(n + {I.bytes} - 1, {I.bytes}, q, {I.bytes} - 1);
    } else {
        assert(({I.bytes} - r) % {I.bytes} == {I.bytes} - r) by { vstd::arithmetic::div_mod::lemma_fundamental_div_mod_converse({I.bytes} - r, {I.bytes}, 0, {I.bytes} - r); }
        vstd::arithmetic::div_mod::lemma_fundamental_div_mod_converse(n + {I.bytes} - 1, {I.bytes}, q + 1, r - 1);
    }
}
/// the three ways of writing the step are the same word (a byte cannot overlap the word shifted by 8; adding it cannot overflow)
pub proof fn lemma_shl8_forms{X}(w: {I}, b: u8)
    ensures
        (w << 8) ^ (b as {I}) == (w << 8) | (b as {I}),
        (w << 8) as int + (b as {I}) as int <= {I.max} as int,
        ((w << 8) as int + (b as {I}) as int) as {I} == (w << 8) | (b as {I}),
{
    assert((w << 8) ^ (b as {I}) == (w << 8) | (b as {I})) by(bit_vector);
    assert(add(w << 8, b as {I}) == (w << 8) | (b as {I})) by(bit_vector);
    assert((w << 8) <= {I.max} - 255) by(bit_vector);
}
pub proof fn lemma_shl8_room{X}()
    ensures forall|w: {I}| #[trigger] (w << 8) <= {I.max} - 255
{
    assert forall|w: {I}| #[trigger] (w << 8) <= {I.max} - 255 by { assert((w << 8) <= {I.max} - 255) by(bit_vector); }
}
