// R5: mirror declarations of the crate's IArray / IArrayMut traits, one trait per (method, J) because the
// generic methods get_int::<J>/set_int::<J>/int_len::<J> are monomorphised (DESIGN 2.2 R5). Each carries a precondition hook.
pub trait IA_int_len_u8 { spec fn int_len_u8_req(&self) -> bool; fn int_len_u8(&self) -> usize requires self.int_len_u8_req(); }
pub trait IA_int_len_u16 { spec fn int_len_u16_req(&self) -> bool; fn int_len_u16(&self) -> usize requires self.int_len_u16_req(); }
pub trait IA_int_len_u32 { spec fn int_len_u32_req(&self) -> bool; fn int_len_u32(&self) -> usize requires self.int_len_u32_req(); }
pub trait IA_int_len_u64 { spec fn int_len_u64_req(&self) -> bool; fn int_len_u64(&self) -> usize requires self.int_len_u64_req(); }
pub trait IA_int_len_u128 { spec fn int_len_u128_req(&self) -> bool; fn int_len_u128(&self) -> usize requires self.int_len_u128_req(); }
pub trait IA_int_len_usize { spec fn int_len_usize_req(&self) -> bool; fn int_len_usize(&self) -> usize requires self.int_len_usize_req(); }
pub trait IA_get_int_u8 { spec fn get_int_u8_req(&self, idx: usize) -> bool; fn get_int_u8(&self, idx: usize) -> Option<u8> requires self.get_int_u8_req(idx); }
pub trait IA_get_int_u16 { spec fn get_int_u16_req(&self, idx: usize) -> bool; fn get_int_u16(&self, idx: usize) -> Option<u16> requires self.get_int_u16_req(idx); }
pub trait IA_get_int_u32 { spec fn get_int_u32_req(&self, idx: usize) -> bool; fn get_int_u32(&self, idx: usize) -> Option<u32> requires self.get_int_u32_req(idx); }
pub trait IA_get_int_u64 { spec fn get_int_u64_req(&self, idx: usize) -> bool; fn get_int_u64(&self, idx: usize) -> Option<u64> requires self.get_int_u64_req(idx); }
pub trait IA_get_int_u128 { spec fn get_int_u128_req(&self, idx: usize) -> bool; fn get_int_u128(&self, idx: usize) -> Option<u128> requires self.get_int_u128_req(idx); }
pub trait IA_get_int_usize { spec fn get_int_usize_req(&self, idx: usize) -> bool; fn get_int_usize(&self, idx: usize) -> Option<usize> requires self.get_int_usize_req(idx); }
pub trait IA_set_int_u8 { spec fn set_int_u8_req(&self, idx: usize, v: u8) -> bool; fn set_int_u8(&mut self, idx: usize, v: u8) -> Option<u8> requires old(self).set_int_u8_req(idx, v); }
pub trait IA_set_int_u16 { spec fn set_int_u16_req(&self, idx: usize, v: u16) -> bool; fn set_int_u16(&mut self, idx: usize, v: u16) -> Option<u16> requires old(self).set_int_u16_req(idx, v); }
pub trait IA_set_int_u32 { spec fn set_int_u32_req(&self, idx: usize, v: u32) -> bool; fn set_int_u32(&mut self, idx: usize, v: u32) -> Option<u32> requires old(self).set_int_u32_req(idx, v); }
pub trait IA_set_int_u64 { spec fn set_int_u64_req(&self, idx: usize, v: u64) -> bool; fn set_int_u64(&mut self, idx: usize, v: u64) -> Option<u64> requires old(self).set_int_u64_req(idx, v); }
pub trait IA_set_int_u128 { spec fn set_int_u128_req(&self, idx: usize, v: u128) -> bool; fn set_int_u128(&mut self, idx: usize, v: u128) -> Option<u128> requires old(self).set_int_u128_req(idx, v); }
pub trait IA_set_int_usize { spec fn set_int_usize_req(&self, idx: usize, v: usize) -> bool; fn set_int_usize(&mut self, idx: usize, v: usize) -> Option<usize> requires old(self).set_int_usize_req(idx, v); }
