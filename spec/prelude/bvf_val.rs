// Value view of Bvf<{I}, N> (needs value.rs, value_word.rs)
impl<const N: usize> Bvf<{I}, N> {
    /// bit function (false outside 0..len) and unsigned value
    pub open spec fn bitf(&self) -> spec_fn(int) -> bool { |b: int| 0 <= b < self.length && bit_at{X}(self.data@, b) }
    pub open spec fn val(&self) -> nat { fval(self.bitf(), self.length as nat) }
}
/// for a well-formed Bvf the value is the value of the whole storage
pub proof fn lemma_bvf_val_words{X}<const N: usize>(v: &Bvf<{I}, N>)
    requires v.wf()
    ensures v.val() == words_val{X}(v.data@, N as nat), v.val() == fval(seqf{X}(v.data@), {I.bits} * (N as nat))
{
    let n = N as nat;
    lemma_seq_val{X}(v.data@, n);
    lemma_fval_zero_above(seqf{X}(v.data@), v.length as nat, {I.bits} * n);
    lemma_fval_ext(seqf{X}(v.data@), v.bitf(), v.length as nat);
}
