// Sequence-level chunk copy: OR a chunk of l source bits into a zero region of a target word (isolated from the callers' index reasoning)
pub open spec fn or_chunk_word{X}(tw: {I}, srcw: {I}, s: {I}, p: {I}, l: nat) -> {I} { tw | (((srcw >> s) & mask_spec{X}(l)) << p) }
pub proof fn lemma_or_chunk_seq{X}(prev: Seq<{I}>, nd: Seq<{I}>, src: Seq<{I}>, ni: int, oi: int, l: int)
    requires
        nd.len() == prev.len(),
        nd[ni / {I.bits}] == or_chunk_word{X}(prev[ni / {I.bits}], src[oi / {I.bits}], (oi % {I.bits}) as {I}, (ni % {I.bits}) as {I}, l as nat),
        forall|k: int| 0 <= k < prev.len() && k != ni / {I.bits} ==> nd[k] == prev[k],
        0 <= ni, 0 <= oi, 1 <= l, ni % {I.bits} + l <= {I.bits}, oi % {I.bits} + l <= {I.bits},
        ni / {I.bits} < prev.len(), oi / {I.bits} < src.len(),
        forall|t: int| ni <= t < ni + l ==> !#[trigger] bit_at{X}(prev, t),
    ensures
        forall|t: int| 0 <= t < prev.len() * {I.bits} ==> #[trigger] bit_at{X}(nd, t)
            == (if ni <= t < ni + l { bit_at{X}(src, oi + (t - ni)) } else { bit_at{X}(prev, t) }),
{
    let wi = ni / {I.bits};
    let p = (ni % {I.bits}) as {I};
    let s = (oi % {I.bits}) as {I};
    let tw = prev[wi];
    let srcw = src[oi / {I.bits}];
    let d = srcw >> s;
    assert forall|k: {I}| p <= k < p + l implies !wbit{X}(tw, k as nat) by {
        let t = wi * {I.bits} + k;
        lemma_divmod_at{X}(wi, k as int);
        assert(t / {I.bits} == wi && t % {I.bits} == k as int);
        assert(ni <= t < ni + l);
        assert(bit_at{X}(prev, t) == wbit{X}(tw, k as nat));
    }
    assert forall|t: int| 0 <= t < prev.len() * {I.bits} implies #[trigger] bit_at{X}(nd, t)
        == (if ni <= t < ni + l { bit_at{X}(src, oi + (t - ni)) } else { bit_at{X}(prev, t) }) by {
        if t / {I.bits} == wi {
            lemma_or_zero_chunk{X}(tw, d, p, l as {I}, (t % {I.bits}) as {I});
            lemma_chunk_idx1{X}(t, ni, l);
            if ni <= t < ni + l {
                lemma_chunk_idx{X}(t, ni, oi, l);
                lemma_wbit_shr{X}(srcw, s, (t % {I.bits} - p) as {I});
            }
        } else {
            assert(nd[t / {I.bits}] == prev[t / {I.bits}]);
        }
    }
}
