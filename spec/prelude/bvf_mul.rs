// Final step of Bvf multiplication: from the schoolbook equation over n words to the value-level contract.
pub proof fn lemma_bvf_mul_finish<const N1: usize>(a: &Bvf<{I}, N1>, mid: Seq<{I}>, f: &Bvf<{I}, N1>, rv: nat, rw: Seq<{I}>, q: int, n: nat)
    requires
        a.wf(), f.length == a.length, mid.len() == N1, n == (a.length + {I.bits} - 1) / {I.bits}, 0 <= q,
        forall|b: int| 0 <= b < N1 * {I.bits} ==> #[trigger] bit_at(f.data@, b) == (b < a.length && bit_at(mid, b)),
        words_val(mid, n) as int + q * pow2({I.bits} * n) == (words_val(a.data@, n) * words_val(rw, n)) as int,
        words_val(rw, n) % pow2(a.length as nat) == rv % pow2(a.length as nat),
    ensures
        f.wf(),
        f.val() == (a.val() * rv) % pow2(a.length as nat),
{
    let len = a.length as nat;
    let kk = {I.bits} * n;
    // a's value is the value of its first n words
    lemma_seq_val(a.data@, n);
    lemma_fval_zero_above(seqf(a.data@), len, kk);
    lemma_fval_ext(seqf(a.data@), a.bitf(), len);
    // the result's value is the low len bits of the first n words of mid
    lemma_seq_val(mid, n);
    lemma_fval_mod(seqf(mid), len, kk);
    assert forall|b: int| 0 <= b < len implies #[trigger] f.bitf()(b) == seqf(mid)(b) by { assert(bit_at(f.data@, b) == (b < a.length && bit_at(mid, b))); }
    lemma_fval_ext(f.bitf(), seqf(mid), len);
    lemma_mul_final(words_val(mid, n), q as nat, n, len, words_val(a.data@, n), words_val(rw, n), rv);
}
