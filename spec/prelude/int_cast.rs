// Casts and shifts between a native integer {J} and a storage word {I} at the bit level (valid for every pair of widths); T1 for the std helpers
pub assume_specification [{J}::checked_shr] (a: {J}, s: u32) -> (r: Option<{J}>)
    ensures s < {J.bits} ==> r == Some(a >> s), s >= {J.bits} ==> r is None;
pub proof fn lemma_cast_bit_{J}_{I}(x: {J}, t: {I})
    requires t < {I.bits}
    ensures wbit{X}(x as {I}, t as nat) == (t < {J.bits} && wbit{Y}(x, t as nat))
{
    assert((((x as {I}) >> t) & 1 == 1) == (t < {J.bits} && ((x >> (t as {J})) & 1 == 1))) by(bit_vector) requires t < {I.bits};
}
pub proof fn lemma_shr_cast_bit_{J}_{I}(x: {J}, s: {J}, t: {I})
    requires s < {J.bits}, t < {I.bits}
    ensures wbit{X}((x >> s) as {I}, t as nat) == (s + t < {J.bits} && wbit{Y}(x, (s + t) as nat))
{
    assert(((((x >> s) as {I}) >> t) & 1 == 1) == ((s as u64) + (t as u64) < {J.bits} && ((x >> ((s as u64 + t as u64) as {J})) & 1 == 1))) by(bit_vector)
        requires s < {J.bits}, t < {I.bits};
}
/// number of significant bits of a native integer
pub open spec fn sig_{J}(x: {J}) -> int { {J.bits} - vstd::std_specs::bits::{J}_leading_zeros(x) as int }
