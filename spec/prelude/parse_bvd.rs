/// word count of Bvd::from_hex: capacity_from_byte_len((n + 1) / 2) == ceil(n/16) == ceil(4n/64)
pub proof fn lemma_hex_words(n: int)
    requires 0 <= n
    ensures ((n + 1) / 2 + 7) / 8 == (n + 15) / 16, (n + 15) / 16 == (n * 4 + 63) / 64
{
}
