// Bv: canonical digits of the value through the active representation (needs bvf_hash.rs, bvd_hash.rs for u64, bv_val.rs)
pub proof fn lemma_bv_hash_words(v: &Bv)
    requires v.wf()
    ensures forall|r: int| #[trigger] v.is_sig(r) ==> 0 <= hwords(r) <= v.words().len() && canon(v.val()) =~= v.words().subrange(0, hwords(r))
{
    match v {
        Bv::Fixed(b) => {
            lemma_bvf_hash_words(b);
            assert forall|r: int| #[trigger] v.is_sig(r) implies 0 <= hwords(r) <= v.words().len() && canon(v.val()) =~= v.words().subrange(0, hwords(r)) by {
                assert forall|i: int| r <= i < b.length implies !bit_at(b.data@, i) by { assert(!v.sbit(i)); }
                if r > 0 { assert(v.sbit(r - 1)); }
                assert(b.is_sig(r));
            }
        }
        Bv::Dynamic(b) => {
            lemma_bvd_hash_words(b);
            assert forall|r: int| #[trigger] v.is_sig(r) implies 0 <= hwords(r) <= v.words().len() && canon(v.val()) =~= v.words().subrange(0, hwords(r)) by {
                assert forall|i: int| r <= i < b.length implies !bit_at(b.data@, i) by { assert(!v.sbit(i)); }
                if r > 0 { assert(v.sbit(r - 1)); }
                assert(b.is_sig(r));
            }
        }
    }
}
/// a u64 chunk read from u64 storage below the length is the storage word itself
pub proof fn lemma_bv_word_chunk(v: &Bv, k: int, x: u64)
    requires v.wf(), 0 <= k, k * 64 < v.slen(),
        forall|t: nat| t < 64 ==> #[trigger] wbit(x, t) == (k * 64 + t < v.slen() && v.sbit(k * 64 + t)),
    ensures k < v.words().len(), x == v.words()[k]
{
    assert(k < v.words().len());
    assert forall|j: u64| j < 64 implies wbit(x, j as nat) == wbit(v.words()[k], j as nat) by {
        let b = k * 64 + j;
        lemma_divmod_at(k, j as int);
        assert(b / 64 == k && b % 64 == j as int);
        assert(v.sbit(b) == wbit(v.words()[k], j as nat));
        if b >= v.slen() { assert(!v.sbit(b)); }
    }
    lemma_wbit_ext(x, v.words()[k]);
}
