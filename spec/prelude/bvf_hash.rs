// Bvf<{I},N>: the first ceil(sig/{I.bits}) storage words are the canonical digits of the value (needs hash.rs, bvf_val.rs)
pub proof fn lemma_bvf_hash_words<const N: usize>(v: &Bvf<{I}, N>)
    requires v.wf()
    ensures forall|r: int| #[trigger] v.is_sig(r) ==> 0 <= hwords{X}(r) <= N && canon{X}(v.val()) =~= v.data@.subrange(0, hwords{X}(r))
{
    assert forall|r: int| #[trigger] v.is_sig(r) implies 0 <= hwords{X}(r) <= N && canon{X}(v.val()) =~= v.data@.subrange(0, hwords{X}(r)) by {
        let m = hwords{X}(r);
        assert(r <= m * {I.bits} && m * {I.bits} < r + {I.bits});
        let mn = m as nat;
        // value = value of the first m words
        lemma_seq_val{X}(v.data@, mn);
        assert forall|b: int| r <= b < {I.bits} * mn implies !#[trigger] seqf{X}(v.data@)(b) by {
            if b < v.length { assert(!bit_at{X}(v.data@, b)); } else { assert(!bit_at{X}(v.data@, b)); }
        }
        lemma_fval_zero_above(seqf{X}(v.data@), r as nat, {I.bits} * mn);
        assert forall|b: int| r <= b < v.length implies !#[trigger] v.bitf()(b) by { }
        lemma_fval_zero_above(v.bitf(), r as nat, v.length as nat);
        lemma_fval_ext(seqf{X}(v.data@), v.bitf(), r as nat);
        assert(v.val() == words_val{X}(v.data@, mn));
        // top word not zero
        if m > 0 {
            let t = ((r - 1) % {I.bits}) as {I};
            vstd::arithmetic::div_mod::lemma_fundamental_div_mod(r + {I.bits} - 1, {I.bits});
            lemma_divmod_at{X}(m - 1, (r - 1) - (m - 1) * {I.bits});
            assert((r - 1) / {I.bits} == m - 1);
            assert(wbit{X}(v.data@[m - 1], t as nat));
            if v.data@[m - 1] == 0 { lemma_wbit_zero{X}(t); }
        }
        lemma_canon_words{X}(v.data@, mn);
    }
}
