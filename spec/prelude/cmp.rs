// Comparison theory: a Bvf<{I},_> (a) and a Bvf<{J},_> (b) both read in chunks of {J} (needs value*.rs, bvf_val.rs, chunk.rs for both).
pub open spec fn cva_{I}_{J}<const NA: usize>(a: &Bvf<{I}, NA>, k: int) -> {J} { chunk_val_{I}_{J}(a.data@, a.length as int, k) }
pub open spec fn cvb_{I}_{J}<const NB: usize>(b: &Bvf<{J}, NB>, k: int) -> {J} { chunk_val_{J}_{J}(b.data@, b.length as int, k) }

pub proof fn lemma_cmp_bits_{I}_{J}<const NA: usize, const NB: usize>(a: &Bvf<{I}, NA>, b: &Bvf<{J}, NB>, k: int)
    requires a.wf(), b.wf(), 0 <= k
    ensures
        forall|t: nat| t < {J.bits} ==> #[trigger] wbit{XJ}(cva_{I}_{J}(a, k), t) == a.bitf()(k * {J.bits} + t),
        forall|t: nat| t < {J.bits} ==> #[trigger] wbit{XJ}(cvb_{I}_{J}(b, k), t) == b.bitf()(k * {J.bits} + t),
{
    lemma_chunk_val_ok_{I}_{J}(a.data@, a.length as int, k);
    lemma_chunk_val_ok_{J}_{J}(b.data@, b.length as int, k);
}
/// all chunks below n equal, n chunks cover both lengths  ==>  equal values
pub proof fn lemma_cmp_all_equal_{I}_{J}<const NA: usize, const NB: usize>(a: &Bvf<{I}, NA>, b: &Bvf<{J}, NB>, n: nat)
    requires a.wf(), b.wf(), a.length <= n * {J.bits}, b.length <= n * {J.bits},
        forall|k: int| 0 <= k < n ==> cva_{I}_{J}(a, k) == cvb_{I}_{J}(b, k),
    ensures a.val() == b.val()
{
    let kk = n * {J.bits};
    assert forall|p: int| 0 <= p < kk implies #[trigger] a.bitf()(p) == b.bitf()(p) by {
        let k = p / {J.bits};
        let t = (p % {J.bits}) as nat;
        lemma_cmp_bits_{I}_{J}(a, b, k);
        assert(cva_{I}_{J}(a, k) == cvb_{I}_{J}(b, k));
        assert(wbit{XJ}(cva_{I}_{J}(a, k), t) == a.bitf()(k * {J.bits} + t));
        assert(wbit{XJ}(cvb_{I}_{J}(b, k), t) == b.bitf()(k * {J.bits} + t));
    }
    lemma_fval_ext(a.bitf(), b.bitf(), kk);
    lemma_fval_zero_above(a.bitf(), a.length as nat, kk);
    lemma_fval_zero_above(b.bitf(), b.length as nat, kk);
}
/// chunk k differs and all chunks in (k, n) are equal  ==>  the values compare like the chunk values
pub proof fn lemma_cmp_decide_{I}_{J}<const NA: usize, const NB: usize>(a: &Bvf<{I}, NA>, b: &Bvf<{J}, NB>, n: nat, k: int)
    requires a.wf(), b.wf(), a.length <= n * {J.bits}, b.length <= n * {J.bits}, 0 <= k < n,
        cva_{I}_{J}(a, k) != cvb_{I}_{J}(b, k),
        forall|m: int| k < m < n ==> cva_{I}_{J}(a, m) == cvb_{I}_{J}(b, m),
    ensures
        a.val() != b.val(),
        (a.val() < b.val()) == (cva_{I}_{J}(a, k) < cvb_{I}_{J}(b, k)),
{
    let kk = n * {J.bits};
    let x = cva_{I}_{J}(a, k);
    let y = cvb_{I}_{J}(b, k);
    lemma_word_val{XJ}(x); lemma_word_val{XJ}(y);
    let dt = lemma_top_diff(wordf{XJ}(x), wordf{XJ}(y), {J.bits});
    lemma_fval_lt_iff(wordf{XJ}(x), wordf{XJ}(y), {J.bits}, dt);
    let d = (k * {J.bits} + dt) as nat;
    lemma_cmp_bits_{I}_{J}(a, b, k);
    assert(a.bitf()(d as int) == wbit{XJ}(x, dt));
    assert(b.bitf()(d as int) == wbit{XJ}(y, dt));
    assert forall|p: int| d < p < kk implies #[trigger] a.bitf()(p) == b.bitf()(p) by {
        let m = p / {J.bits};
        let t = (p % {J.bits}) as nat;
        lemma_cmp_bits_{I}_{J}(a, b, m);
        assert(wbit{XJ}(cva_{I}_{J}(a, m), t) == a.bitf()(m * {J.bits} + t));
        assert(wbit{XJ}(cvb_{I}_{J}(b, m), t) == b.bitf()(m * {J.bits} + t));
        if m == k {
            assert(wordf{XJ}(x)(t as int) == wordf{XJ}(y)(t as int));
        } else {
            assert(cva_{I}_{J}(a, m) == cvb_{I}_{J}(b, m));
        }
    }
    lemma_fval_lt_iff(a.bitf(), b.bitf(), kk, d);
    lemma_fval_zero_above(a.bitf(), a.length as nat, kk);
    lemma_fval_zero_above(b.bitf(), b.length as nat, kk);
}
/// some chunk differs  ==>  the values differ
pub proof fn lemma_neq_chunk_{I}_{J}<const NA: usize, const NB: usize>(a: &Bvf<{I}, NA>, b: &Bvf<{J}, NB>, n: nat, k: int)
    requires a.wf(), b.wf(), a.length <= n * {J.bits}, b.length <= n * {J.bits}, 0 <= k < n,
        cva_{I}_{J}(a, k) != cvb_{I}_{J}(b, k),
    ensures a.val() != b.val()
{
    let kk = n * {J.bits};
    if a.val() == b.val() {
        lemma_fval_zero_above(a.bitf(), a.length as nat, kk);
        lemma_fval_zero_above(b.bitf(), b.length as nat, kk);
        lemma_fval_injective(a.bitf(), b.bitf(), kk);
        lemma_cmp_bits_{I}_{J}(a, b, k);
        assert forall|j: {J}| j < {J.bits} implies wbit{XJ}(cva_{I}_{J}(a, k), j as nat) == wbit{XJ}(cvb_{I}_{J}(b, k), j as nat) by {
            assert(a.bitf()(k * {J.bits} + j) == b.bitf()(k * {J.bits} + j));
        }
        lemma_wbit_ext{XJ}(cva_{I}_{J}(a, k), cvb_{I}_{J}(b, k));
    }
}
