// storage words of the active representation of a Bv
impl Bv {
    pub open spec fn words(&self) -> Seq<u64> { match self { Bv::Fixed(b) => b.data@, Bv::Dynamic(b) => b.data@ } }
}
