// storage words of the active representation of a Bv
impl Bv {
    pub open spec fn words(&self) -> Seq<u64> { match self { Bv::Fixed(b) => b.data@, Bv::Dynamic(b) => b.data@ } }
}
/// the abstract bit of a Bv is the bit of its active storage words
pub proof fn lemma_sbit_words(v: &Bv)
    ensures forall|i: int| #[trigger] v.sbit(i) == bit_at(v.words(), i)
{
    match v { Bv::Fixed(b) => { } Bv::Dynamic(b) => { } }
}
