// Value view of Bv (needs value.rs, value_word.rs, bvf_val.rs, bvd_val.rs for u64)
impl Bv {
    pub open spec fn val(&self) -> nat {
        match self { Bv::Fixed(b) => b.val(), Bv::Dynamic(b) => b.val() }
    }
}
