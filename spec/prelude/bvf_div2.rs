// div_rem of Bvf<{I},N>: value of a vector that agrees with a bit function below m and is zero from m on; >= as the crate's default PartialOrd::ge (T1)
/// `a >= b` on two Bvf of one type is std's default PartialOrd::ge: partial_cmp is Greater or Equal (R22)
pub fn verif_ge_bvf<const N: usize>(a: &Bvf<{I}, N>, b: &Bvf<{I}, N>) -> (r: bool)
    requires a.wf(), b.wf()
    ensures r == (a.val() >= b.val())
{
    match a.partial_cmp(b) {
        Some(Ordering::Less) => false,
        Some(_) => true,
        None => false,
    }
}
