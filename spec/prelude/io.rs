// ---- std::io seen through mirror traits (R28). The crate's read/write are generic over `R: std::io::Read` / `W: std::io::Write`; they are
// verified for an ARBITRARY implementor of the mirror traits below, whose contracts are the documented behaviour of `read_exact` /
// `write_all` on a byte stream without I/O failures other than end of input (assumed: T1-io).
#[verifier::external_type_specification]
#[verifier::external_body]
pub struct ExIoError(std::io::Error);
/// the `std::io::ErrorKind`s the crate constructs
pub enum VKind { InvalidInput, InvalidData, Other }
pub uninterp spec fn io_kind(e: std::io::Error) -> VKind;
/// `std::io::Error::new(kind, e)` (T1: the error carries the kind it was built with)
#[verifier::external_body]
pub fn verif_io_error(kind: VKind, e: ConvertionError) -> (r: std::io::Error)
    ensures io_kind(r) == kind
{ unimplemented!() }

pub trait VRead {
    /// the bytes not yet consumed
    spec fn stream(&self) -> Seq<u8>;
    /// `Read::read_exact(&mut buf[..])`: fills the whole buffer with the next bytes and consumes exactly those, or fails at end of input
    fn read_exact_vec(&mut self, buf: &mut Vec<u8>) -> (r: Result<(), std::io::Error>)
        ensures
            final(buf)@.len() == old(buf)@.len(),
            (r is Ok) == (old(self).stream().len() >= old(buf)@.len()),
            r is Ok ==> final(buf)@ == old(self).stream().subrange(0, old(buf)@.len() as int)
                && final(self).stream() == old(self).stream().subrange(old(buf)@.len() as int, old(self).stream().len() as int);
}
pub trait VWrite {
    /// everything written so far
    spec fn sink(&self) -> Seq<u8>;
    /// `Write::write_all(buf)`: appends exactly `buf`, or fails
    fn write_all(&mut self, buf: &[u8]) -> (r: Result<(), std::io::Error>)
        ensures r is Ok ==> final(self).sink() == old(self).sink() + buf@;
}
/// the first `length` bits of `data` are the bits of the little-endian byte string `le`
pub open spec fn read_bits{X}(data: Seq<{I}>, length: int, le: Seq<u8>) -> bool {
    forall|i: int| 0 <= i < length ==> #[trigger] bit_at{X}(data, i) == byte_bit(le[i / 8], (i % 8) as nat)
}
/// the byte string in little-endian order
pub open spec fn le_order(bs: Seq<u8>, e: Endianness) -> Seq<u8> { if e == Endianness::Little { bs } else { bs.reverse() } }
/// C13 round trip, as a lemma over the two contracts: reading back `length` bits from the bytes that `to_vec`/`write` produced for a
/// vector of that length gives the same bit at every index (whatever the two storage layouts are)
pub proof fn lemma_read_write_round_trip{X}(d1: Seq<{I}>, d2: Seq<{I}>, length: int, le: Seq<u8>)
    requires le_image{X}(d1, length, le), read_bits{X}(d2, length, le)
    ensures forall|i: int| 0 <= i < length ==> bit_at{X}(d2, i) == bit_at{X}(d1, i)
{
    assert forall|i: int| 0 <= i < length implies bit_at{X}(d2, i) == bit_at{X}(d1, i) by {
        vstd::arithmetic::div_mod::lemma_fundamental_div_mod(i, 8);
        let j = i / 8;
        let t = (i % 8) as nat;
        assert(j < (length + 7) / 8) by { vstd::arithmetic::div_mod::lemma_fundamental_div_mod(length + 7, 8); }
        assert(byte_bit(le[j], t) == (8 * j + t < length && bit_at{X}(d1, 8 * j + t)));
    }
}
/// ... and from_bytes(to_vec(v)) is v zero-extended to a whole number of bytes
pub proof fn lemma_from_bytes_to_vec{X}(d1: Seq<{I}>, d2: Seq<{I}>, length: int, le: Seq<u8>)
    requires 0 <= length, le_image{X}(d1, length, le), le_image{X}(d2, (le.len() * 8) as int, le)
    ensures le.len() * 8 >= length, forall|i: int| 0 <= i < le.len() * 8 ==> bit_at{X}(d2, i) == (i < length && bit_at{X}(d1, i))
{
    vstd::arithmetic::div_mod::lemma_fundamental_div_mod(length + 7, 8);
    assert forall|i: int| 0 <= i < le.len() * 8 implies bit_at{X}(d2, i) == (i < length && bit_at{X}(d1, i)) by {
        vstd::arithmetic::div_mod::lemma_fundamental_div_mod(i, 8);
        let j = i / 8;
        let t = (i % 8) as nat;
        assert(byte_bit(le[j], t) == (8 * j + t < length && bit_at{X}(d1, 8 * j + t)));
        assert(byte_bit(le[j], t) == (8 * j + t < le.len() * 8 && bit_at{X}(d2, 8 * j + t)));
    }
}
