// T1: Box<[T]>::clone copies the slice element-wise (stated for Copy element types: the crate only clones Box<[u64]>)
pub assume_specification<T: Clone, A: core::alloc::Allocator + Clone> [<Box<[T], A> as Clone>::clone](b: &Box<[T], A>) -> (r: Box<[T], A>)
    ensures r@ == b@;
