// Value view of Bvd (needs value.rs, value_word.rs for u64)
impl Bvd {
    /// bit function (false outside 0..len) and unsigned value
    pub open spec fn bitf(&self) -> spec_fn(int) -> bool { |b: int| 0 <= b < self.length && bit_at{X}(self.data@, b) }
    pub open spec fn val(&self) -> nat { fval(self.bitf(), self.length as nat) }
}
/// for a well-formed Bvd the value is the value of any word prefix that covers the length
pub proof fn lemma_bvd_val_words(v: &Bvd, n: nat)
    requires v.wf(), v.length <= 64 * n, n <= v.data@.len()
    ensures v.val() == words_val{X}(v.data@, n), v.val() == fval(seqf{X}(v.data@), 64 * n)
{
    lemma_seq_val{X}(v.data@, n);
    lemma_fval_zero_above(seqf{X}(v.data@), v.length as nat, 64 * n);
    lemma_fval_ext(seqf{X}(v.data@), v.bitf(), v.length as nat);
}
/// the operand words used by the carry chain (rhs words, zero-extended) are the operand's value modulo 2^m
pub proof fn lemma_bvd_operand_words(rhs: &Bvd, rw: Seq<u64>, n: nat, m: nat)
    requires
        rhs.wf(), rw.len() == n, m <= 64 * n,
        forall|k: int| 0 <= k < n ==> rw[k] == (if k < (rhs.length + 63) / 64 { rhs.data@[k] } else { 0u64 }),
    ensures
        words_val{X}(rw, n) % pow2(m) == rhs.val() % pow2(m),
{
    let nr = (rhs.length + 63) / 64;
    lemma_seq_val{X}(rw, n);
    assert forall|b: int| 0 <= b < 64 * n implies #[trigger] seqf{X}(rw)(b) == rhs.bitf()(b) by {
        let k = b / 64;
        let t = (b % 64) as u64;
        if k < nr {
            assert(rw[k] == rhs.data@[k]);
            assert(bit_at{X}(rhs.data@, b) == wbit{X}(rhs.data@[k], t as nat));
            if b >= rhs.length { assert(!bit_at{X}(rhs.data@, b)); }
        } else {
            assert(rw[k] == 0u64);
            lemma_wbit_zero{X}(t);
        }
    }
    lemma_fval_ext(seqf{X}(rw), rhs.bitf(), 64 * n);
    assert forall|b: int| rhs.length <= b implies !#[trigger] rhs.bitf()(b) by { }
    lemma_fval_trunc_cong(rhs.bitf(), rhs.length as nat, 64 * n, m);
}
