// Value view of Bvd (needs value.rs, value_word.rs for u64)
impl Bvd {
    /// bit function (false outside 0..len) and unsigned value
    pub open spec fn bitf(&self) -> spec_fn(int) -> bool { |b: int| 0 <= b < self.length && bit_at{X}(self.data@, b) }
    pub open spec fn val(&self) -> nat { fval(self.bitf(), self.length as nat) }
}
/// for a well-formed Bvd the value is the value of any word prefix that covers the length
pub proof fn lemma_bvd_val_words(v: &Bvd, n: nat)
    requires v.wf(), v.length <= 64 * n, n <= v.data@.len()
    ensures v.val() == words_val{X}(v.data@, n), v.val() == fval(seqf{X}(v.data@), 64 * n)
{
    lemma_seq_val{X}(v.data@, n);
    lemma_fval_zero_above(seqf{X}(v.data@), v.length as nat, 64 * n);
    lemma_fval_ext(seqf{X}(v.data@), v.bitf(), v.length as nat);
}
