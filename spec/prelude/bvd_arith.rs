// Final step of Bvd {OPM}: from the carry-chain equation over the significant words to the value-level contract.
pub proof fn lemma_bvd_addsub_finish(o: &Bvd, mid: Seq<u64>, f: &Bvd, rv: nat, rw: Seq<u64>, carry: u64, n: nat)
    requires
        o.wf(), f.length == o.length, mid.len() == o.data@.len(), f.data@.len() == o.data@.len(),
        n == (o.length + 63) / 64, rw.len() == n,
        forall|b: int| 0 <= b < mid.len() * 64 ==> #[trigger] bit_at(f.data@, b) == (b < o.length && bit_at(mid, b)),
        words_val(mid, n) as int {SGN} (carry as int) * pow2(64 * n) == words_val(o.data@, n) as int {SGN} words_val(rw, n) as int,
        words_val(rw, n) % pow2(o.length as nat) == rv % pow2(o.length as nat),
    ensures
        f.wf(),
        f.val() as int == (o.val() as int {SGN} rv as int) % (pow2(o.length as nat) as int),
{
    let kk = 64 * n;
    let len = o.length as nat;
    lemma_bvd_val_words(o, n);
    lemma_seq_val(mid, n);
    lemma_words_val_bound(mid, n);
    lemma_fval_mod(seqf(mid), len, kk);
    assert forall|b: int| 0 <= b < len implies #[trigger] f.bitf()(b) == seqf(mid)(b) by { assert(bit_at(f.data@, b) == (b < o.length && bit_at(mid, b))); }
    lemma_fval_ext(f.bitf(), seqf(mid), len);
    {FIN}(words_val(mid, n), carry as nat, kk, len, o.val(), words_val(rw, n), rv);
    lemma_pow2_pos(len);
}
