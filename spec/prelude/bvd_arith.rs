// Final step of Bvd {OPM}: from the carry-chain equation over the significant words to the value-level contract.
pub proof fn lemma_bvd_addsub_finish(o: &Bvd, mid: Seq<u64>, f: &Bvd, rv: nat, rw: Seq<u64>, carry: u64, n: nat)
    requires
        o.wf(), f.length == o.length, mid.len() == o.data@.len(), f.data@.len() == o.data@.len(),
        n == (o.length + 63) / 64, rw.len() == n,
        forall|b: int| 0 <= b < mid.len() * 64 ==> #[trigger] bit_at(f.data@, b) == (b < o.length && bit_at(mid, b)),
        words_val(mid, n) as int {SGN} (carry as int) * pow2(64 * n) == words_val(o.data@, n) as int {SGN} words_val(rw, n) as int,
        words_val(rw, n) % pow2(o.length as nat) == rv % pow2(o.length as nat),
    ensures
        f.wf(),
        f.val() as int == (o.val() as int {SGN} rv as int) % (pow2(o.length as nat) as int),
{
    let kk = 64 * n;
    let len = o.length as nat;
    lemma_bvd_val_words(o, n);
    lemma_seq_val(mid, n);
    lemma_words_val_bound(mid, n);
    lemma_fval_mod(seqf(mid), len, kk);
    assert forall|b: int| 0 <= b < len implies #[trigger] f.bitf()(b) == seqf(mid)(b) by { assert(bit_at(f.data@, b) == (b < o.length && bit_at(mid, b))); }
    lemma_fval_ext(f.bitf(), seqf(mid), len);
    {FIN}(words_val(mid, n), carry as nat, kk, len, o.val(), words_val(rw, n), rv);
    lemma_pow2_pos(len);
}
/// the operand words used by the carry chain (rhs words, zero-extended) are the operand's value modulo 2^m
pub proof fn lemma_bvd_operand_words(rhs: &Bvd, rw: Seq<u64>, n: nat, m: nat)
    requires
        rhs.wf(), rw.len() == n, m <= 64 * n,
        forall|k: int| 0 <= k < n ==> rw[k] == (if k < (rhs.length + 63) / 64 { rhs.data@[k] } else { 0u64 }),
    ensures
        words_val(rw, n) % pow2(m) == rhs.val() % pow2(m),
{
    let nr = (rhs.length + 63) / 64;
    lemma_seq_val(rw, n);
    assert forall|b: int| 0 <= b < 64 * n implies #[trigger] seqf(rw)(b) == rhs.bitf()(b) by {
        let k = b / 64;
        let t = (b % 64) as u64;
        if k < nr {
            assert(rw[k] == rhs.data@[k]);
            assert(bit_at(rhs.data@, b) == wbit(rhs.data@[k], t as nat));
            if b >= rhs.length { assert(!bit_at(rhs.data@, b)); }
        } else {
            assert(rw[k] == 0u64);
            lemma_wbit_zero(t);
        }
    }
    lemma_fval_ext(seqf(rw), rhs.bitf(), 64 * n);
    assert forall|b: int| rhs.length <= b implies !#[trigger] rhs.bitf()(b) by { }
    lemma_fval_trunc_cong(rhs.bitf(), rhs.length as nat, 64 * n, m);
}
