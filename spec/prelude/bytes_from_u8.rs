// from_bytes with byte-sized storage words: word k IS byte k
pub proof fn lemma_bytes_are_words(data: Seq<u8>, bytes: Seq<u8>)
    requires
        bytes.len() <= data.len(),
        forall|k: int| 0 <= k < data.len() ==> #[trigger] data[k] == (if k < bytes.len() { bytes[k] } else { 0u8 }),
    ensures
        le_image(data, (bytes.len() * 8) as int, bytes),
        forall|i: int| bytes.len() * 8 <= i < data.len() * 8 ==> !bit_at(data, i),
{
    let n = bytes.len() as int;
    assert((n * 8 + 7) / 8 == n) by { vstd::arithmetic::div_mod::lemma_fundamental_div_mod_converse(n * 8 + 7, 8, n, 7); }
    assert forall|jb: int, t: nat| 0 <= jb < bytes.len() && t < 8 implies #[trigger] byte_bit(bytes[jb], t) == (8 * jb + t < n * 8 && bit_at(data, 8 * jb + t)) by {
        lemma_divmod_at(jb, t as int);
        assert(data[jb] == bytes[jb]);
    }
    assert forall|i: int| bytes.len() * 8 <= i < data.len() * 8 implies !bit_at(data, i) by {
        vstd::arithmetic::div_mod::lemma_fundamental_div_mod(i, 8);
        assert(data[i / 8] == 0u8);
        lemma_wbit_zero((i % 8) as u8);
    }
}
