// Hash model: an uninterpreted record `fed(h)` of what a Hasher has been given, word by word (T1: <{I} as Hash>::hash feeds exactly that word),
use core::hash::{Hash, Hasher};
// and the canonical word sequence of a VALUE: base-2^{I.bits} digits, least significant first, no leading zero digit.
pub uninterp spec fn fed{X}<H>(h: &H) -> Seq<{I}>;
pub assume_specification<H: core::hash::Hasher> [<{I} as core::hash::Hash>::hash::<H>] (v: &{I}, state: &mut H)
    ensures fed{X}(final(state)) == fed{X}(old(state)).push(*v);

pub open spec fn canon{X}(v: nat) -> Seq<{I}>
    decreases v
{
    if v == 0 { Seq::empty() } else { seq![(v % ({I.pow} as nat)) as {I}] + canon{X}(v / ({I.pow} as nat)) }
}
/// value of the first m words from the low end: d[0] + B * value of the next m-1 words
pub proof fn lemma_words_val_low{X}(d: Seq<{I}>, m: nat)
    requires 1 <= m <= d.len()
    ensures words_val{X}(d, m) == d[0] as nat + ({I.pow} as nat) * words_val{X}(d.subrange(1, d.len() as int), (m - 1) as nat)
    decreases m
{
    let e = d.subrange(1, d.len() as int);
    lemma_pow2_wb{X}();
    if m == 1 {
        lemma2_to64();
        assert(words_val{X}(d, 0) == 0);
        assert(words_val{X}(e, 0) == 0);
        assert({I.bits} * 0 == 0);
        assert((d[0] as nat) * pow2(0) == d[0] as nat) by(nonlinear_arith) requires pow2(0) == 1;
        assert(({I.pow} as nat) * 0 == 0);
    } else {
        let k = (m - 1) as nat;
        lemma_words_val_low{X}(d, k);
        assert(e[k - 1] == d[k as int]);
        lemma_pow2_adds({I.bits}, {I.bits} * ((k - 1) as nat));
        assert({I.bits} + {I.bits} * ((k - 1) as nat) == {I.bits} * k);
        let bb = {I.pow} as nat;
        let x = d[k as int] as nat;
        let p1 = pow2({I.bits} * ((k - 1) as nat));
        assert(bb * (words_val{X}(e, (k - 1) as nat) + x * p1) == bb * words_val{X}(e, (k - 1) as nat) + x * (bb * p1)) by(nonlinear_arith);
    }
}
/// the canonical digits of the value of m words whose top word is not zero are exactly those m words
pub proof fn lemma_canon_words{X}(d: Seq<{I}>, m: nat)
    requires m <= d.len(), m > 0 ==> d[m - 1] != 0
    ensures canon{X}(words_val{X}(d, m)) =~= d.subrange(0, m as int)
    decreases m
{
    let bb = {I.pow} as nat;
    if m == 0 {
        assert(words_val{X}(d, 0) == 0);
    } else {
        let e = d.subrange(1, d.len() as int);
        let k = (m - 1) as nat;
        lemma_words_val_low{X}(d, m);
        let rest = words_val{X}(e, k);
        let v = words_val{X}(d, m);
        assert(v == d[0] as nat + bb * rest);
        if k > 0 { assert(e[k - 1] == d[m - 1]); }
        lemma_canon_words{X}(e, k);
        // v > 0: either the low word is the (non-zero) top word, or rest > 0
        if k == 0 {
            assert(rest == 0);
        } else {
            assert(canon{X}(rest).len() == k);
            assert(rest > 0) by { if rest == 0 { assert(canon{X}(rest).len() == 0); } }
        }
        assert(v > 0) by(nonlinear_arith) requires v == d[0] as nat + bb * rest, bb > 0, (k == 0 ==> d[0] as nat > 0), (k > 0 ==> rest > 0);
        lemma_fundamental_div_mod_converse(v as int, bb as int, rest as int, d[0] as int);
        assert(canon{X}(v) == seq![(v % bb) as {I}] + canon{X}(v / bb));
        assert(e.subrange(0, k as int) =~= d.subrange(1, m as int));
    }
}
pub open spec fn hwords{X}(r: int) -> int { (r + {I.bits} - 1) / {I.bits} }
