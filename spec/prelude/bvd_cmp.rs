// Bvd as a word-indexed operand of the comparison theory (needs bvd_val.rs, cmp_words.rs)
impl Bvd {
    /// k-th u64 word, zero beyond the allocation (what `self.data.get(k).unwrap_or(&0)` reads)
    pub open spec fn wordz(&self) -> spec_fn(int) -> u64 { |k: int| if 0 <= k < self.data@.len() { self.data@[k] } else { 0u64 } }
}
pub proof fn lemma_bvd_words_of(v: &Bvd)
    requires v.wf()
    ensures words_of{X}(v.bitf(), v.wordz()), zero_from(v.bitf(), v.length as nat)
{
    assert forall|k: int, t: nat| 0 <= k && t < 64 implies #[trigger] wbit{X}(v.wordz()(k), t) == v.bitf()(k * 64 + t) by {
        let p = k * 64 + t;
        if k < v.data@.len() {
            assert(bit_at{X}(v.data@, p) == wbit{X}(v.data@[k], t));
            if p >= v.length { assert(!bit_at{X}(v.data@, p)); }
        } else {
            lemma_wbit_zero{X}(t as u64);
        }
    }
}
