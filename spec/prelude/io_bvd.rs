/// word count of a stream-read dynamic vector: ceil(ceil(l/8)/8) == ceil(l/64), and bit l-1 lies in the last word
pub proof fn lemma_read_words(l: int)
    requires 0 <= l
    ensures ((l + 7) / 8 + 7) / 8 == (l + 63) / 64, l > 0 ==> (l - 1) / 64 == (l + 63) / 64 - 1, (l + 7) / 8 * 8 <= l + 7,
{
}
