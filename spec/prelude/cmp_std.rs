// T1: std's Ordering::reverse (not specified by vstd); value-level ordering of two naturals
pub open spec fn rev(o: Ordering) -> Ordering {
    match o { Ordering::Less => Ordering::Greater, Ordering::Equal => Ordering::Equal, Ordering::Greater => Ordering::Less }
}
pub assume_specification [Ordering::reverse](o: Ordering) -> (r: Ordering) ensures r == rev(o);
pub open spec fn ord_of(a: nat, b: nat) -> Ordering {
    if a < b { Ordering::Less } else if a == b { Ordering::Equal } else { Ordering::Greater }
}
