// Display (decimal): repeated division by ten, value level
pub open spec fn dec_digits(v: nat) -> Seq<char>
    decreases v
{
    if v == 0 { Seq::<char>::empty() } else { seq![hex_char((v % 10) as int, false)] + dec_digits(v / 10) }
}
/// d is the decimal digit string of v: most significant digit first, "0" for zero, no leading zero
pub open spec fn is_dec_repr(v: nat, d: Seq<char>) -> bool { d == (if v == 0 { seq!['0'] } else { dec_digits(v).reverse() }) }
/// T1: `char::from_digit(d, 10)` for d < 10 is the ASCII digit
pub assume_specification [char::from_digit](num: u32, radix: u32) -> (r: Option<char>)
    ensures radix == 10 && num < 10 ==> r == Some(hex_char(num as int, false));
/// one division step: the digit pushed is the next least significant decimal digit
pub proof fn lemma_dec_step(all: Seq<char>, s: Seq<char>, q: nat)
    requires q > 0, all == s + dec_digits(q)
    ensures all == s.push(hex_char((q % 10) as int, false)) + dec_digits(q / 10)
{
    assert(dec_digits(q) == seq![hex_char((q % 10) as int, false)] + dec_digits(q / 10));
    assert(s + (seq![hex_char((q % 10) as int, false)] + dec_digits(q / 10)) =~= s.push(hex_char((q % 10) as int, false)) + dec_digits(q / 10));
}
pub proof fn lemma_dec_nonempty(v: nat)
    requires v > 0
    ensures dec_digits(v).len() > 0
{
    assert(dec_digits(v) == seq![hex_char((v % 10) as int, false)] + dec_digits(v / 10));
}
/// a value below 16 has at most 4 significant bits (used: remainder of a division by ten fits any native integer)
pub proof fn lemma_small_sig(v: nat, s: int)
    requires v < 16, s >= 0, s > 0 ==> v >= pow2((s - 1) as nat)
    ensures s <= 4
{
    vstd::arithmetic::power2::lemma2_to64();
    if s > 4 {
        if s - 1 > 4 { vstd::arithmetic::power2::lemma_pow2_strictly_increases(4, (s - 1) as nat); }
    }
}
