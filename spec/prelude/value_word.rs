// Value theory for word type {I}: words_val, and the bridge between the bit view and the word view.
pub open spec fn words_val{X}(d: Seq<{I}>, k: nat) -> nat
    decreases k
{
    if k == 0 { 0 } else { words_val{X}(d, (k - 1) as nat) + (d[k - 1] as nat) * pow2({I.bits} * ((k - 1) as nat)) }
}
/// bit function of one word / of a word sequence (zero outside the storage)
pub open spec fn wordf{X}(w: {I}) -> spec_fn(int) -> bool { |t: int| 0 <= t < {I.bits} && wbit{X}(w, t as nat) }
pub open spec fn seqf{X}(d: Seq<{I}>) -> spec_fn(int) -> bool { |b: int| 0 <= b < d.len() * {I.bits} && bit_at{X}(d, b) }

pub proof fn lemma_pow2_wb{X}()
    ensures pow2({I.bits}) == {I.pow}
{
    lemma2_to64(); lemma2_to64_rest();
    lemma_pow2_adds(64, 64);
}

proof fn lemma_wbit_div{X}(w: {I}, j: nat)
    requires j < {I.bits}
    ensures b2n(wbit{X}(w, j)) == ((w as nat) / pow2(j)) % 2
{
    let ju = j as {I};
    vstd::bits::lemma_{I}_shr_is_div(w, ju);
    let v = w >> ju;
    assert((v & 1 == 1) == (v % 2 == 1)) by(bit_vector);
    assert(v & 1 == 0 || v & 1 == 1) by(bit_vector);
}

proof fn lemma_word_low{X}(w: {I}, k: nat)
    requires k <= {I.bits}
    ensures fval(wordf{X}(w), k) == (w as nat) % pow2(k)
    decreases k
{
    if k == 0 {
        lemma2_to64();
    } else {
        let j = (k - 1) as nat;
        lemma_word_low{X}(w, j);
        lemma_wbit_div{X}(w, j);
        lemma_pow2_pos(j);
        lemma_pow2_adds(j, 1);
        lemma2_to64();
        lemma_mod_breakdown(w as int, pow2(j) as int, 2);
        assert(pow2(k) == pow2(j) * 2);
        assert(wordf{X}(w)(k - 1) == wbit{X}(w, j));
        assert(b2n(wbit{X}(w, j)) * pow2(j) == pow2(j) * (((w as nat) / pow2(j)) % 2)) by(nonlinear_arith)
            requires b2n(wbit{X}(w, j)) == ((w as nat) / pow2(j)) % 2;
    }
}
/// a word is the sum of its bits
pub proof fn lemma_word_val{X}(w: {I})
    ensures fval(wordf{X}(w), {I.bits}) == w as nat
{
    lemma_word_low{X}(w, {I.bits});
    lemma_pow2_wb{X}();
    lemma_small_mod(w as nat, pow2({I.bits}));
}
/// bridge: the bits of the first n words sum to words_val
pub proof fn lemma_seq_val{X}(d: Seq<{I}>, n: nat)
    requires n <= d.len()
    ensures fval(seqf{X}(d), {I.bits} * n) == words_val{X}(d, n)
    decreases n
{
    if n > 0 {
        let m = (n - 1) as nat;
        lemma_seq_val{X}(d, m);
        lemma_fval_split(seqf{X}(d), {I.bits} * m, {I.bits});
        let g = |t: int| seqf{X}(d)({I.bits} * m + t);
        assert forall|t: int| 0 <= t < {I.bits} implies #[trigger] g(t) == wordf{X}(d[m as int])(t) by {
            let b = {I.bits} * m + t;
            assert(b == (m as int) * {I.bits} + t) by(nonlinear_arith) requires b == {I.bits} * m + t;
            lemma_divmod_at{X}(m as int, t);
            assert(b / {I.bits} == m as int && b % {I.bits} == t);
        }
        lemma_fval_ext(g, wordf{X}(d[m as int]), {I.bits});
        lemma_word_val{X}(d[m as int]);
        assert({I.bits} * m + {I.bits} == {I.bits} * n);
        assert(pow2({I.bits} * m) * (d[m as int] as nat) == (d[m as int] as nat) * pow2({I.bits} * m)) by(nonlinear_arith);
    }
}
pub proof fn lemma_words_val_bound{X}(a: Seq<{I}>, k: nat)
    ensures words_val{X}(a, k) < pow2({I.bits} * k)
    decreases k
{
    if k > 0 {
        lemma_words_val_bound{X}(a, (k - 1) as nat);
        lemma_pow2_wb{X}();
        lemma_pow2_adds({I.bits} * ((k - 1) as nat), {I.bits});
        let p = pow2({I.bits} * ((k - 1) as nat));
        let bb: nat = {I.pow} as nat;
        assert((a[k - 1] as nat) * p <= (bb - 1) * p) by(nonlinear_arith) requires (a[k - 1] as nat) <= bb - 1;
        assert((bb - 1) * p + p == bb * p) by(nonlinear_arith) requires bb >= 1;
        assert(p * bb == bb * p) by(nonlinear_arith);
        assert({I.bits} * ((k - 1) as nat) + {I.bits} == {I.bits} * k);
    } else {
        lemma2_to64();
    }
}
pub proof fn lemma_words_val_prefix{X}(a: Seq<{I}>, b: Seq<{I}>, k: nat)
    requires forall|j: int| 0 <= j < k ==> a[j] == b[j]
    ensures words_val{X}(a, k) == words_val{X}(b, k)
    decreases k
{
    if k > 0 { lemma_words_val_prefix{X}(a, b, (k - 1) as nat); }
}
/// one step of a carry chain: s + c0*B^k == a + b  and  r + c1*B == x + y + c0   ==>  (s + r*B^k) + c1*B^(k+1) == (a + x*B^k) + (b + y*B^k)
pub proof fn lemma_carry_step{X}(a: nat, b: nat, s: nat, c0: nat, c1: nat, x: nat, y: nat, r: nat, k: nat)
    requires
        s + c0 * pow2({I.bits} * k) == a + b,
        r + c1 * {I.pow} == x + y + c0,
    ensures
        (s + r * pow2({I.bits} * k)) + c1 * pow2({I.bits} * (k + 1)) == (a + x * pow2({I.bits} * k)) + (b + y * pow2({I.bits} * k)),
{
    lemma_pow2_wb{X}();
    lemma_pow2_adds({I.bits} * k, {I.bits});
    let p = pow2({I.bits} * k);
    let bb: nat = {I.pow} as nat;
    assert({I.bits} * (k + 1) == {I.bits} * k + {I.bits});
    assert(pow2({I.bits} * (k + 1)) == p * bb);
    assert(c1 * (p * bb) == (c1 * bb) * p) by(nonlinear_arith);
    assert((r + c1 * bb) * p == r * p + (c1 * bb) * p) by(nonlinear_arith);
    assert((x + y + c0) * p == x * p + y * p + c0 * p) by(nonlinear_arith);
}
/// borrow chain: s - c0*B^k == a - b  and  r - c1*B == x - y - c0  ==>  (s + r*B^k) - c1*B^(k+1) == (a + x*B^k) - (b + y*B^k)
pub proof fn lemma_borrow_step{X}(a: int, b: int, s: int, c0: int, c1: int, x: int, y: int, r: int, k: nat)
    requires
        s - c0 * pow2({I.bits} * k) == a - b,
        r - c1 * {I.pow} == x - y - c0,
    ensures
        (s + r * pow2({I.bits} * k)) - c1 * pow2({I.bits} * (k + 1)) == (a + x * pow2({I.bits} * k)) - (b + y * pow2({I.bits} * k)),
{
    lemma_pow2_wb{X}();
    lemma_pow2_adds({I.bits} * k, {I.bits});
    let p = pow2({I.bits} * k) as int;
    let bb: int = {I.pow};
    assert({I.bits} * (k + 1) == {I.bits} * k + {I.bits});
    assert(pow2({I.bits} * (k + 1)) as int == p * bb);
    assert(c1 * (p * bb) == (c1 * bb) * p) by(nonlinear_arith);
    assert((r - c1 * bb) * p == r * p - (c1 * bb) * p) by(nonlinear_arith);
    assert((x - y - c0) * p == x * p - y * p - c0 * p) by(nonlinear_arith);
}
/// carry chain step over int (same statement as lemma_carry_step)
pub proof fn lemma_addc_step{X}(a: int, b: int, s: int, c0: int, c1: int, x: int, y: int, r: int, k: nat)
    requires
        s + c0 * pow2({I.bits} * k) == a + b,
        r + c1 * {I.pow} == x + y + c0,
    ensures
        (s + r * pow2({I.bits} * k)) + c1 * pow2({I.bits} * (k + 1)) == (a + x * pow2({I.bits} * k)) + (b + y * pow2({I.bits} * k)),
{
    lemma_pow2_wb{X}();
    lemma_pow2_adds({I.bits} * k, {I.bits});
    let p = pow2({I.bits} * k) as int;
    let bb: int = {I.pow};
    assert({I.bits} * (k + 1) == {I.bits} * k + {I.bits});
    assert(pow2({I.bits} * (k + 1)) as int == p * bb);
    assert(c1 * (p * bb) == (c1 * bb) * p) by(nonlinear_arith);
    assert((r + c1 * bb) * p == r * p + (c1 * bb) * p) by(nonlinear_arith);
    assert((x + y + c0) * p == x * p + y * p + c0 * p) by(nonlinear_arith);
}
