// Bv: value as the value of its bit function, and the division bridges (needs bv_val.rs, value_div.rs, bvf_div.rs, bvd_div.rs for u64)
impl Bv {
    pub open spec fn bitf(&self) -> spec_fn(int) -> bool { |b: int| 0 <= b < self.slen() && self.sbit(b) }
}
pub proof fn lemma_bv_val_bitf(v: &Bv)
    ensures v.val() == fval(v.bitf(), v.slen() as nat)
{
    match v {
        Bv::Fixed(b) => { assert(v.bitf() =~= b.bitf()); }
        Bv::Dynamic(b) => { assert(v.bitf() =~= b.bitf()); }
    }
}
pub proof fn lemma_bv_zero_iff(v: &Bv)
    requires v.wf()
    ensures (v.val() == 0) == (forall|i: int| 0 <= i < v.slen() ==> !v.sbit(i))
{
    lemma_bv_val_bitf(v);
    lemma_fval_zero_iff(v.bitf(), v.slen() as nat);
    if forall|i: int| 0 <= i < v.slen() ==> !v.sbit(i) {
        assert forall|b: int| 0 <= b < v.slen() implies !#[trigger] v.bitf()(b) by { }
    } else {
        let i = choose|i: int| 0 <= i < v.slen() && v.sbit(i);
        assert(v.bitf()(i));
    }
}
pub proof fn lemma_bv_sig(v: &Bv, s: int)
    requires v.wf(), v.is_sig(s)
    ensures
        v.val() < pow2(s as nat), s > 0 ==> v.val() >= pow2((s - 1) as nat), s == 0 ==> v.val() == 0,
        forall|r: int| #[trigger] v.is_sig(r) ==> r == s,
{
    lemma_bv_val_bitf(v);
    assert forall|b: int| s <= b < v.slen() implies !#[trigger] v.bitf()(b) by { }
    if s > 0 { assert(v.bitf()(s - 1)); }
    lemma_fval_sig(v.bitf(), v.slen() as nat, s as nat);
    assert forall|r: int| #[trigger] v.is_sig(r) implies r == s by {
        if r < s { assert(v.sbit(s - 1)); assert(!v.sbit(s - 1)); }
        if r > s { assert(v.sbit(r - 1)); assert(!v.sbit(r - 1)); }
    }
}
pub proof fn lemma_bv_sig_search(v: &Bv, k: int) -> (s: int)
    requires 0 <= k <= v.slen(), forall|i: int| k <= i < v.slen() ==> !v.sbit(i)
    ensures v.is_sig(s)
    decreases k
{
    if k == 0 { 0 } else if v.sbit(k - 1) { k } else { lemma_bv_sig_search(v, k - 1) }
}
/// value of a Bv that agrees with a bit function below m and is zero from m on
pub proof fn lemma_bv_val_prefix(v: &Bv, g: spec_fn(int) -> bool, m: nat)
    requires v.wf(), m <= v.slen(), forall|b: int| 0 <= b < m ==> #[trigger] v.sbit(b) == g(b), forall|b: int| m <= b < v.slen() ==> !v.sbit(b)
    ensures v.val() == fval(g, m)
{
    lemma_bv_val_bitf(v);
    assert forall|b: int| m <= b < v.slen() implies !#[trigger] v.bitf()(b) by { }
    lemma_fval_zero_above(v.bitf(), m, v.slen() as nat);
    assert forall|b: int| 0 <= b < m implies #[trigger] v.bitf()(b) == g(b) by { assert(v.sbit(b) == g(b)); }
    lemma_fval_ext(v.bitf(), g, m);
}
/// `a >= b` on two Bv is std's default PartialOrd::ge over the verified partial_cmp (R22)
pub fn verif_ge_bv(a: &Bv, b: &Bv) -> (r: bool)
    requires a.wf(), b.wf(), a.slen() <= usize::MAX / 64, b.slen() <= usize::MAX / 64
    ensures r == (a.val() >= b.val())
{
    match a.partial_cmp(b) {
        Some(Ordering::Less) => false,
        Some(_) => true,
        None => false,
    }
}
