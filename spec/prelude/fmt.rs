// ---- core::fmt seen through a mirror type (R32). The crate's formatting impls build the digit string of the value and hand it to
// `Formatter::pad_integral(true, prefix, digits)`, which is also what core::fmt::num does for every unsigned integer with its minimal
// digit string and the same prefix. T4 (assumed, stated once): the output of pad_integral is a function of (flags of the formatter,
// is_nonnegative, prefix, digits) only. Hence "the same string Rust produces for the unsigned integer of the same value, under every
// combination of flags" == "pad_integral is called exactly once with (true, Rust's prefix for that radix, the minimal digits of the value)".
pub mod fmt {
    use super::*;
    #[verifier::external_body]
    pub struct Formatter<'a> { m: core::marker::PhantomData<&'a ()> }
    pub type Result = core::result::Result<(), core::fmt::Error>;
    impl<'a> Formatter<'a> {
        /// the pad_integral calls made so far: (is_nonnegative, prefix, digits)
        pub uninterp spec fn calls(&self) -> Seq<(bool, Seq<char>, Seq<char>)>;
        #[verifier::external_body]
        pub fn pad_integral(&mut self, is_nonnegative: bool, prefix: &str, buf: &str) -> (r: Result)
            ensures final(self).calls() == old(self).calls().push((is_nonnegative, prefix@, buf@))
        { unimplemented!() }
    }
}
pub mod vstdm { pub use super::fmt; }
/// T1: `String::with_capacity` is an empty string
pub assume_specification [String::with_capacity](n: usize) -> (s: String) ensures s@ == Seq::<char>::empty();

/// d is the minimal binary digit string of the bit list (data, length): "0" for the value zero (empty vectors included), otherwise
/// most significant digit first, no leading zero, one digit per bit, every higher bit zero
pub open spec fn is_bin_repr{X}(data: Seq<{I}>, length: int, d: Seq<char>) -> bool {
    &&& d.len() >= 1
    &&& (d.len() == 1 && d[0] == '0') || d[0] == '1'
    &&& d.len() <= length || (d.len() == 1 && d[0] == '0')
    &&& forall|k: int| 0 <= k < d.len() && d.len() - 1 - k < length ==> #[trigger] d[k] == (if bit_at{X}(data, d.len() - 1 - k) { '1' } else { '0' })
    &&& forall|b: int| d.len() <= b < length ==> !bit_at{X}(data, b)
    &&& (d[0] == '0' ==> forall|b: int| 0 <= b < length ==> !bit_at{X}(data, b))
}

pub open spec fn b2i(b: bool) -> int { if b { 1 } else { 0 } }
/// value of hex digit m (bits 4m..4m+3) of the storage
pub open spec fn nibv{X}(data: Seq<{I}>, m: int) -> int {
    b2i(bit_at{X}(data, 4 * m)) + 2 * b2i(bit_at{X}(data, 4 * m + 1)) + 4 * b2i(bit_at{X}(data, 4 * m + 2)) + 8 * b2i(bit_at{X}(data, 4 * m + 3))
}
pub open spec fn hex_char(v: int, upper: bool) -> char {
    if v == 0 { '0' } else if v == 1 { '1' } else if v == 2 { '2' } else if v == 3 { '3' } else if v == 4 { '4' } else if v == 5 { '5' }
    else if v == 6 { '6' } else if v == 7 { '7' } else if v == 8 { '8' } else if v == 9 { '9' }
    else if v == 10 { if upper { 'A' } else { 'a' } } else if v == 11 { if upper { 'B' } else { 'b' } } else if v == 12 { if upper { 'C' } else { 'c' } }
    else if v == 13 { if upper { 'D' } else { 'd' } } else if v == 14 { if upper { 'E' } else { 'e' } } else { if upper { 'F' } else { 'f' } }
}
/// d is the minimal hexadecimal digit string of the storage seen as `nn` hex digits (nn = ceil(length/4); bits beyond length are zero by wf)
pub open spec fn is_hex_repr{X}(data: Seq<{I}>, nn: int, d: Seq<char>, upper: bool) -> bool {
    &&& d.len() >= 1
    &&& (d.len() == 1 && d[0] == '0') || nibv{X}(data, d.len() - 1) != 0
    &&& d.len() <= nn || (d.len() == 1 && d[0] == '0')
    &&& forall|k: int| 0 <= k < d.len() && d.len() - 1 - k < nn ==> #[trigger] d[k] == hex_char(nibv{X}(data, d.len() - 1 - k), upper)
    &&& forall|m: int| d.len() <= m < nn ==> nibv{X}(data, m) == 0
    &&& (nn == 0 || nibv{X}(data, d.len() - 1) == 0) ==> (d.len() == 1 && d[0] == '0' && forall|m: int| 0 <= m < nn ==> nibv{X}(data, m) == 0)
}
/// the nibble the code extracts: `cast_to::<u8>(w >> (q*4)) & 0xf` is hex digit q of the word
pub proof fn lemma_word_nibble{X}(w: {I}, q: {I})
    requires q < {I.nibbles}
    ensures
        ((w >> ((q * 4) as {I})) as u8) & 0xf < 16,
        (((w >> ((q * 4) as {I})) as u8) & 0xf) as int == b2i(wbit{X}(w, (q * 4) as nat)) + 2 * b2i(wbit{X}(w, (q * 4 + 1) as nat)) + 4 * b2i(wbit{X}(w, (q * 4 + 2) as nat)) + 8 * b2i(wbit{X}(w, (q * 4 + 3) as nat)),
{
    let x: u8 = ((w >> ((q * 4) as {I})) as u8) & 0xf;
    assert(x < 16) by(bit_vector) requires x == ((w >> ((q * 4) as {I})) as u8) & 0xf;
    assert((x & 1 == 1) == ((w >> ((q * 4) as {I})) & 1 == 1)) by(bit_vector) requires x == ((w >> ((q * 4) as {I})) as u8) & 0xf, q < {I.nibbles};
    assert(((x >> 1) & 1 == 1) == ((w >> ((q * 4 + 1) as {I})) & 1 == 1)) by(bit_vector) requires x == ((w >> ((q * 4) as {I})) as u8) & 0xf, q < {I.nibbles};
    assert(((x >> 2) & 1 == 1) == ((w >> ((q * 4 + 2) as {I})) & 1 == 1)) by(bit_vector) requires x == ((w >> ((q * 4) as {I})) as u8) & 0xf, q < {I.nibbles};
    assert(((x >> 3) & 1 == 1) == ((w >> ((q * 4 + 3) as {I})) & 1 == 1)) by(bit_vector) requires x == ((w >> ((q * 4) as {I})) as u8) & 0xf, q < {I.nibbles};
    assert(x as int == b2i(x & 1 == 1) + 2 * b2i((x >> 1) & 1 == 1) + 4 * b2i((x >> 2) & 1 == 1) + 8 * b2i((x >> 3) & 1 == 1)) by {
        assert(x == (x & 1) + 2 * ((x >> 1) & 1) + 4 * ((x >> 2) & 1) + 8 * ((x >> 3) & 1)) by(bit_vector) requires x < 16;
        assert((x & 1) == 0 || (x & 1) == 1) by(bit_vector);
        assert(((x >> 1) & 1) == 0 || ((x >> 1) & 1) == 1) by(bit_vector);
        assert(((x >> 2) & 1) == 0 || ((x >> 2) & 1) == 1) by(bit_vector);
        assert(((x >> 3) & 1) == 0 || ((x >> 3) & 1) == 1) by(bit_vector);
    }
}
/// the expression the code evaluates for hex digit m
pub open spec fn nib_raw{X}(data: Seq<{I}>, m: int) -> u8 { ((data[m / {I.nibbles}] >> (((m % {I.nibbles}) * 4) as {I})) as u8) & 0xf }
/// ... lifted to the storage: nibble m of the word sequence
pub proof fn lemma_nibble_of{X}(data: Seq<{I}>, m: int)
    requires 0 <= m, m / {I.nibbles} < data.len()
    ensures nib_raw{X}(data, m) as int == nibv{X}(data, m), nib_raw{X}(data, m) < 16,
{
    let j = m / {I.nibbles};
    let q = m % {I.nibbles};
    vstd::arithmetic::div_mod::lemma_fundamental_div_mod(m, {I.nibbles});
    lemma_word_nibble{X}(data[j], q as {I});
    assert(4 * m == j * {I.bits} + 4 * q);
    lemma_divmod_at{X}(j, 4 * q);
    lemma_divmod_at{X}(j, 4 * q + 1);
    lemma_divmod_at{X}(j, 4 * q + 2);
    lemma_divmod_at{X}(j, 4 * q + 3);
}
/// hex digit m of a vector of `length` bits lies inside its N words
pub proof fn lemma_nib_in_range{X}(length: int, n: int, m: int)
    requires 0 <= m < (length + 3) / 4, length <= n * {I.bits}
    ensures m / {I.nibbles} < n
{
    vstd::arithmetic::div_mod::lemma_fundamental_div_mod(m, {I.nibbles});
    vstd::arithmetic::div_mod::lemma_fundamental_div_mod(length + 3, 4);
    assert(4 * m + 1 <= length);
    if m / {I.nibbles} >= n {
        assert(m >= n * {I.nibbles});
        assert(4 * m >= n * {I.bits});
    }
}

/// bit b of the vector, zero beyond its length
pub open spec fn bit_l{X}(data: Seq<{I}>, length: int, b: int) -> bool { b < length && bit_at{X}(data, b) }
/// value of octal digit m (bits 3m..3m+2)
pub open spec fn octv{X}(data: Seq<{I}>, length: int, m: int) -> int {
    b2i(bit_l{X}(data, length, 3 * m)) + 2 * b2i(bit_l{X}(data, length, 3 * m + 1)) + 4 * b2i(bit_l{X}(data, length, 3 * m + 2))
}
/// d is the minimal octal digit string of the bit list: most significant digit first, "0" for zero, no leading zero digit
pub open spec fn is_oct_repr{X}(data: Seq<{I}>, length: int, d: Seq<char>) -> bool {
    &&& d.len() >= 1
    &&& forall|k: int| 0 <= k < d.len() ==> #[trigger] d[k] == hex_char(octv{X}(data, length, d.len() - 1 - k), false)
    &&& forall|m: int| d.len() <= m ==> #[trigger] octv{X}(data, length, m) == 0
    &&& d.len() == 1 || octv{X}(data, length, d.len() - 1) != 0
}
/// the octet the code assembles from three bits
pub proof fn lemma_octet(x: u8, y: u8, z: u8)
    requires x <= 1, y <= 1, z <= 1
    ensures ((z << 2) | (y << 1) | x) as int == x + 2 * y + 4 * z, ((z << 2) | (y << 1) | x) < 8
{
    assert(((z << 2) | (y << 1) | x) == x + 2 * y + 4 * z && ((z << 2) | (y << 1) | x) < 8) by(bit_vector) requires x <= 1, y <= 1, z <= 1;
}
/// T3 / R7: `v.iter().rev().collect::<String>()`
#[verifier::external_body]
pub fn verif_rev_collect_string(v: &Vec<char>) -> (r: String)
    ensures r@ == v@.reverse()
{ v.iter().rev().collect::<String>() }
