// from_binary / from_hex (C15): the string as a sequence of chars, digit values, the first offending character. `use vstd::string::*` is in the file header.
pub open spec fn bin_ok(c: char) -> bool { c == '0' || c == '1' }
pub open spec fn bin_val(c: char) -> u8 { if c == '1' { 1u8 } else { 0u8 } }
/// value of an ASCII hexadecimal digit of either case
pub open spec fn hex_val(c: char) -> Option<u32> {
    if '0' <= c && c <= '9' { Some((c as u32 - '0' as u32) as u32) }
    else if 'a' <= c && c <= 'f' { Some((c as u32 - 'a' as u32 + 10) as u32) }
    else if 'A' <= c && c <= 'F' { Some((c as u32 - 'A' as u32 + 10) as u32) }
    else { None }
}
pub open spec fn hex_ok(c: char) -> bool { hex_val(c) is Some }
pub open spec fn hex_dig(c: char) -> u8 { if hex_val(c) is Some { hex_val(c)->Some_0 as u8 } else { 0u8 } }
/// T1: `char::to_digit(16)` is the value of an ASCII hex digit of either case, None for every other char (non-ASCII included)
pub assume_specification [char::to_digit](c: char, radix: u32) -> (r: Option<u32>)
    ensures radix == 16 ==> r == hex_val(c);
/// the digit values in little-endian order (digit 0 = last character)
pub open spec fn bin_digits(s: Seq<char>) -> Seq<u8> { Seq::new(s.len(), |k: int| bin_val(s[s.len() - 1 - k])) }
pub open spec fn hex_digits(s: Seq<char>) -> Seq<u8> { Seq::new(s.len(), |k: int| hex_dig(s[s.len() - 1 - k])) }
/// T1: `str::len` is the UTF-8 byte length: at least one byte per char, exactly one for ASCII (R31 wraps the call because vstd's own
/// specification of `str::len` only states the ASCII case)
pub uninterp spec fn byte_len(s: &str) -> nat;
#[verifier::external_body]
pub fn verif_str_len(s: &str) -> (r: usize)
    ensures r == byte_len(s), r >= s@.len(), s.is_ascii() ==> r == s@.len()
{ s.len() }
