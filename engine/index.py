"""Index rustc-expanded source into items keyed by (module, container header, fn name)."""
from rstok import tokenize, match_brackets, norm, Tok

QUALS = {"pub", "const", "unsafe", "async", "extern", "default"}


class Fn:
    def __init__(self, src, toks, mod, container, name, sig_start, body_open, body_close):
        self.src = src
        self.toks = toks          # token list of the whole file (shared)
        self.mod = mod
        self.container = container  # normalised impl/trait header, '' for free fns
        self.name = name
        self.sig_start = sig_start      # token index of first qualifier / `fn`
        self.body_open = body_open      # token index of `{` (None for declarations)
        self.body_close = body_close

    @property
    def key(self):
        return (self.mod, self.container, self.name)

    def text(self):
        a = self.toks[self.sig_start].start
        b = self.toks[self.body_close].end if self.body_close is not None else self.toks[self.sig_end].end
        return self.src[a:b]


class Item:
    def __init__(self, kind, mod, name, header, start, end, body_open=None, body_close=None):
        self.kind = kind        # 'impl' 'trait' 'struct' 'enum' 'type' 'const' 'fn'
        self.mod = mod
        self.name = name
        self.header = header    # normalised header text (impl/trait)
        self.start = start      # token idx
        self.end = end          # token idx (inclusive)
        self.body_open = body_open
        self.body_close = body_close
        self.fns = []
        self.consts = []        # (name, start_tok, end_tok)


class Index:
    def __init__(self, src):
        self.src = src
        self.toks = tokenize(src)
        self.pairs = match_brackets(self.toks)
        self.items = []
        self.fns = {}    # key -> [Fn]
        self._scan(0, len(self.toks), "")

    # -- helpers -------------------------------------------------------------------------
    def _skip_attr(self, i):
        t = self.toks
        # `#` `[` ... `]`  or `#` `!` `[` ... `]`
        j = i + 1
        if t[j].text == "!":
            j += 1
        assert t[j].text == "[", "bad attribute at %d" % t[i].start
        return self.pairs[j] + 1

    def _find_depth0(self, i, end, targets):
        """first token index >= i (< end) at bracket depth 0 whose text is in targets"""
        t = self.toks
        while i < end:
            x = t[i]
            if x.kind == "p":
                if x.text in targets:
                    return i
                if x.text in "([{":
                    i = self.pairs[i] + 1
                    continue
            i += 1
        return None

    def _scan(self, i, end, mod):
        t = self.toks
        while i < end:
            x = t[i]
            if x.kind == "p" and x.text == "#":
                i = self._skip_attr(i)
                continue
            if x.kind == "p" and x.text == ";":
                i += 1
                continue
            start = i
            # visibility / qualifiers
            while t[i].kind == "id" and t[i].text in QUALS:
                if t[i].text == "pub" and t[i + 1].text == "(":
                    i = self.pairs[i + 1] + 1
                elif t[i].text == "extern" and t[i + 1].kind == "str":
                    i += 2
                elif t[i].text == "extern" and t[i + 1].text == "crate":
                    break
                elif t[i].text == "const" and t[i + 1].kind == "id" and t[i + 1].text not in ("fn", "unsafe", "extern", "async"):
                    break   # `const NAME: T = ...;`
                else:
                    i += 1
            x = t[i]
            kw = x.text if x.kind == "id" else None
            if kw == "mod":
                name = t[i + 1].text
                if t[i + 2].text == "{":
                    close = self.pairs[i + 2]
                    self._scan(i + 3, close, (mod + "::" + name) if mod else name)
                    i = close + 1
                else:
                    i = self._find_depth0(i, end, {";"}) + 1
                continue
            if kw in ("use", "extern", "type", "static"):
                e = self._find_depth0(i, end, {";"})
                if kw == "type":
                    self.items.append(Item("type", mod, t[i + 1].text, None, start, e))
                i = e + 1
                continue
            if kw == "const":
                e = self._find_depth0(i, end, {";"})
                self.items.append(Item("const", mod, t[i + 1].text, None, start, e))
                i = e + 1
                continue
            if kw == "macro_rules":
                # macro_rules ! name { ... }  or ( ... ) ;
                j = i + 3
                close = self.pairs[j]
                i = close + 1
                continue
            if kw in ("struct", "enum", "union"):
                name = t[i + 1].text
                e = self._find_depth0(i, end, {"{", ";"})
                if t[e].text == "{":
                    e = self.pairs[e]
                else:
                    pass
                self.items.append(Item(kw, mod, name, None, start, e))
                i = e + 1
                continue
            if kw in ("impl", "trait"):
                o = self._find_depth0(i, end, {"{", ";"})
                if t[o].text == ";":
                    i = o + 1
                    continue
                close = self.pairs[o]
                if kw == "impl":
                    header = norm(t[i:o])
                    name = None
                else:
                    name = t[i + 1].text
                    header = "trait " + name
                it = Item(kw, mod, name, header, start, close, o, close)
                self.items.append(it)
                self._scan_members(it)
                i = close + 1
                continue
            if kw == "fn":
                f, nxt = self._parse_fn(start, i, end, mod, "")
                self.fns.setdefault(f.key, []).append(f)
                it = Item("fn", mod, f.name, None, start, nxt - 1)
                it.fns.append(f)
                self.items.append(it)
                i = nxt
                continue
            raise ValueError("unrecognised item at offset %d: %r" % (x.start, self.src[x.start:x.start + 60]))

    def _parse_fn(self, start, i, end, mod, container):
        t = self.toks
        name = t[i + 1].text
        o = self._find_depth0(i, end, {"{", ";"})
        if t[o].text == ";":
            f = Fn(self.src, t, mod, container, name, start, None, None)
            f.sig_end = o
            return f, o + 1
        close = self.pairs[o]
        f = Fn(self.src, t, mod, container, name, start, o, close)
        f.sig_end = o - 1
        return f, close + 1

    def _scan_members(self, it):
        t = self.toks
        i = it.body_open + 1
        end = it.body_close
        while i < end:
            x = t[i]
            if x.kind == "p" and x.text == "#":
                i = self._skip_attr(i)
                continue
            if x.kind == "p" and x.text == ";":
                i += 1
                continue
            start = i
            while t[i].kind == "id" and t[i].text in QUALS:
                if t[i].text == "pub" and t[i + 1].text == "(":
                    i = self.pairs[i + 1] + 1
                elif t[i].text == "extern" and t[i + 1].kind == "str":
                    i += 2
                elif t[i].text == "const" and t[i + 1].kind == "id" and t[i + 1].text not in ("fn", "unsafe", "extern", "async"):
                    break
                else:
                    i += 1
            kw = t[i].text
            if kw == "fn":
                f, nxt = self._parse_fn(start, i, end, it.mod, it.header)
                it.fns.append(f)
                self.fns.setdefault(f.key, []).append(f)
                i = nxt
                continue
            if kw in ("const", "type"):
                e = self._find_depth0(i, end, {";"})
                it.consts.append((kw, t[i + 1].text, start, e))
                i = e + 1
                continue
            raise ValueError("unrecognised member at offset %d: %r" % (t[i].start, self.src[t[i].start:t[i].start + 60]))

    # -- queries -------------------------------------------------------------------------
    def find_fn(self, mod, container_norm, name):
        return self.fns.get((mod, container_norm, name), [])

    def tok_text(self, a, b):
        """source text of tokens a..b inclusive"""
        return self.src[self.toks[a].start:self.toks[b].end]


if __name__ == "__main__":
    import sys
    idx = Index(open(sys.argv[1]).read())
    for k in sorted(idx.fns):
        print(" | ".join(k), len(idx.fns[k]))
