"""Minimal Rust tokenizer + brace matcher for rustc's -Zunpretty=expanded output.

Tokens keep their source offsets so text can be re-emitted with the original whitespace.
Only what the extractor needs: comments, strings, chars vs lifetimes, identifiers, numbers,
and punctuation (single characters, except `::`, `->`, `=>` which are kept as units).
"""
import re

IDENT_START = set("abcdefghijklmnopqrstuvwxyzABCDEFGHIJKLMNOPQRSTUVWXYZ_")
IDENT_CONT = IDENT_START | set("0123456789")


class Tok:
    __slots__ = ("kind", "text", "start", "end")

    def __init__(self, kind, text, start, end):
        self.kind = kind      # 'id' 'life' 'num' 'str' 'char' 'p' 'comment'
        self.text = text
        self.start = start
        self.end = end

    def __repr__(self):
        return "Tok(%s,%r)" % (self.kind, self.text)


class LexError(Exception):
    pass


def tokenize(src, keep_comments=False):
    toks = []
    i = 0
    n = len(src)
    while i < n:
        c = src[i]
        if c in " \t\r\n":
            i += 1
            continue
        if c == "/" and i + 1 < n and src[i + 1] == "/":
            j = src.find("\n", i)
            if j < 0:
                j = n
            if keep_comments:
                toks.append(Tok("comment", src[i:j], i, j))
            i = j
            continue
        if c == "/" and i + 1 < n and src[i + 1] == "*":
            depth = 1
            j = i + 2
            while j < n and depth > 0:
                if src.startswith("/*", j):
                    depth += 1
                    j += 2
                elif src.startswith("*/", j):
                    depth -= 1
                    j += 2
                else:
                    j += 1
            if keep_comments:
                toks.append(Tok("comment", src[i:j], i, j))
            i = j
            continue
        # raw strings / byte strings
        m = re.compile(r'(?:b|c)?r(#*)"').match(src, i)
        if m:
            hashes = m.group(1)
            endpat = '"' + hashes
            j = src.find(endpat, m.end())
            if j < 0:
                raise LexError("unterminated raw string at %d" % i)
            j += len(endpat)
            toks.append(Tok("str", src[i:j], i, j))
            i = j
            continue
        if c == '"' or (c in "bc" and i + 1 < n and src[i + 1] == '"'):
            j = i + (1 if c == '"' else 2)
            while j < n and src[j] != '"':
                if src[j] == "\\":
                    j += 2
                else:
                    j += 1
            j += 1
            toks.append(Tok("str", src[i:j], i, j))
            i = j
            continue
        if c == "'" or (c == "b" and i + 1 < n and src[i + 1] == "'"):
            k = i + (1 if c == "'" else 2)
            # char literal: '\..' or 'x' followed by '
            if k < n and src[k] == "\\":
                j = k + 2
                while j < n and src[j] != "'":
                    j += 1
                j += 1
                toks.append(Tok("char", src[i:j], i, j))
                i = j
                continue
            if k + 1 < n and src[k + 1] == "'" and src[k] != "'":
                j = k + 2
                toks.append(Tok("char", src[i:j], i, j))
                i = j
                continue
            # multi-byte char literal ('é')
            if c == "'" and k < n and src[k] not in IDENT_START:
                j = src.find("'", k)
                if j > 0 and j - k <= 4:
                    toks.append(Tok("char", src[i:j + 1], i, j + 1))
                    i = j + 1
                    continue
            # lifetime
            j = k
            while j < n and src[j] in IDENT_CONT:
                j += 1
            toks.append(Tok("life", src[i:j], i, j))
            i = j
            continue
        if c in IDENT_START:
            j = i + 1
            while j < n and src[j] in IDENT_CONT:
                j += 1
            # raw identifier r#foo
            toks.append(Tok("id", src[i:j], i, j))
            i = j
            continue
        if c.isdigit():
            j = i + 1
            while j < n and (src[j] in IDENT_CONT):
                j += 1
            # fractional part (not a range `..` and not a method call)
            if j + 1 < n and src[j] == "." and src[j + 1].isdigit():
                j += 1
                while j < n and src[j] in IDENT_CONT:
                    j += 1
            toks.append(Tok("num", src[i:j], i, j))
            i = j
            continue
        if src.startswith("::", i) or src.startswith("->", i) or src.startswith("=>", i):
            toks.append(Tok("p", src[i:i + 2], i, i + 2))
            i += 2
            continue
        toks.append(Tok("p", c, i, i + 1))
        i += 1
    return toks


OPEN = {"(": ")", "[": "]", "{": "}"}
CLOSE = {")": "(", "]": "[", "}": "{"}


def match_brackets(toks):
    """Return dict open_index -> close_index (and reverse) for () [] {}."""
    stack = []
    pairs = {}
    for idx, t in enumerate(toks):
        if t.kind != "p":
            continue
        if t.text in OPEN:
            stack.append(idx)
        elif t.text in CLOSE:
            if not stack:
                raise LexError("unbalanced close %r at %d" % (t.text, t.start))
            o = stack.pop()
            if OPEN[toks[o].text] != t.text:
                raise LexError("mismatched %r / %r at %d" % (toks[o].text, t.text, t.start))
            pairs[o] = idx
            pairs[idx] = o
    if stack:
        raise LexError("unbalanced open at %d" % toks[stack[-1]].start)
    return pairs


def norm(toks):
    """Whitespace-independent canonical text of a token sequence."""
    return " ".join(t.text for t in toks)


def norm_text(s):
    return norm(tokenize(s))
