"""Run Verus on generated files and classify the outcome per unit."""
import json
import os
import re
import subprocess
import time

# Messages that mean Z3 produced a counter-model for a specific obligation (definite failure).
DEFINITE = [
    (re.compile(r"postcondition not satisfied"), "ensures"),
    (re.compile(r"failed this postcondition"), "ensures"),
    (re.compile(r"precondition not met: index in bounds"), "index"),
    (re.compile(r"precondition not met"), "call-pre"),
    (re.compile(r"precondition not satisfied"), "call-pre"),
    (re.compile(r"failed precondition"), "call-pre"),
    (re.compile(r"invariant not satisfied before loop"), "invariant-entry"),
    (re.compile(r"invariant not satisfied at end of loop body"), "invariant-preserved"),
    (re.compile(r"loop invariant not satisfied"), "invariant-preserved"),
    (re.compile(r"assertion failed"), "assert"),
    (re.compile(r"possible arithmetic underflow/overflow"), "overflow"),
    (re.compile(r"possible division by zero"), "overflow"),
    (re.compile(r"possible bit shift underflow/overflow"), "overflow"),
    (re.compile(r"index out of bounds|possible index out of bounds"), "index"),
    (re.compile(r"decreases not satisfied"), "decreases"),
    (re.compile(r"called `Option::unwrap\(\)`|unwrap|expect\("), "unwrap"),
    (re.compile(r"recommendation not met"), "recommends"),
    (re.compile(r"unreachable"), "panic-site"),
]
UNDECIDED = [
    re.compile(r"[Rr]esource limit"),
    re.compile(r"rlimit"),
    re.compile(r"timed? ?out"),
    re.compile(r"could not prove termination"),
]


class Diag:
    def __init__(self, message, line, line_end, rendered, code, kind, definite):
        self.message = message
        self.line = line
        self.line_end = line_end
        self.rendered = rendered
        self.code = code
        self.kind = kind
        self.definite = definite
        self.related_lines = []


class FileResult:
    def __init__(self, path):
        self.path = path
        self.rc = None
        self.verified = 0
        self.errors = 0
        self.diags = []
        self.compile_error = None
        self.functions = []   # function-breakdown entries
        self.smt_ms = 0
        self.total_ms = 0
        self.wall_s = 0.0
        self.raw_err = ""
        self.cmd = ""
        self.rlimit_max = 0


def classify(msg):
    for rx in UNDECIDED:
        if rx.search(msg):
            return "resource", False
    for rx, kind in DEFINITE:
        if rx.search(msg):
            return kind, True
    return "other", False


def run_verus(path, rlimit=30, seed=None, timeout=1800, extra=None):
    cmd = ["verus", path, "--output-json", "--time", "--multiple-errors", "8", "--triggers-mode", "silent"]
    if rlimit:
        cmd += ["--rlimit", str(rlimit)]
    if seed:
        cmd += ["--smt-option", "smt.random_seed=%d" % seed]
    if extra:
        cmd += extra
    cmd += ["--", "--error-format=json"]
    res = FileResult(path)
    res.cmd = " ".join(cmd)
    t0 = time.time()
    try:
        p = subprocess.run(cmd, stdout=subprocess.PIPE, stderr=subprocess.PIPE, timeout=timeout,
                           cwd=os.path.dirname(path) or ".")
        res.rc = p.returncode
        out, err = p.stdout.decode("utf-8", "replace"), p.stderr.decode("utf-8", "replace")
    except subprocess.TimeoutExpired as e:
        res.rc = -9
        out, err = "", "verus timed out after %ds" % timeout
        res.compile_error = err
    res.wall_s = time.time() - t0
    res.raw_err = err
    try:
        j = json.loads(out) if out.strip() else {}
    except ValueError:
        j = {}
    vr = j.get("verification-results", {})
    res.verified = vr.get("verified", 0)
    res.errors = vr.get("errors", 0)
    tm = j.get("times-ms", {})
    res.total_ms = tm.get("total", 0)
    smt = tm.get("smt", {})
    res.smt_ms = smt.get("smt-run", 0)
    for m in smt.get("smt-run-module-times", []):
        for fb in m.get("function-breakdown", []):
            res.functions.append(fb)
            res.rlimit_max = max(res.rlimit_max, fb.get("rlimit", 0))
    if not j and res.compile_error is None:
        res.compile_error = "no JSON output from verus"
    for line in err.split("\n"):
        line = line.strip()
        if not line.startswith("{"):
            continue
        try:
            d = json.loads(line)
        except ValueError:
            continue
        if d.get("level") not in ("error",):
            continue
        msg = d.get("message", "")
        if msg.startswith("aborting due to"):
            continue
        spans = d.get("spans", [])
        prim = [s for s in spans if s.get("is_primary")] or spans
        line_no = prim[0]["line_start"] if prim else 0
        line_end = prim[0]["line_end"] if prim else 0
        code = (d.get("code") or {}).get("code") if d.get("code") else None
        kind, definite = classify(msg)
        if code is not None or not j:
            # rustc diagnostics (type errors, syntax errors): the emitted file did not compile
            kind, definite = "rustc", False
        dg = Diag(msg, line_no, line_end, d.get("rendered", ""), code, kind, definite)
        dg.related_lines = [s["line_start"] for s in spans if not s.get("is_primary")]
        res.diags.append(dg)
    if vr.get("encountered-vir-error") or (not vr and res.diags):
        res.compile_error = res.compile_error or "verus front-end error"
    # rustc errors (name resolution, type errors): nothing was verified although JSON is printed
    if any(d.kind == "rustc" for d in res.diags) and res.verified == 0:
        res.compile_error = res.compile_error or "rustc rejected the emitted file"
    return res
