"""Contract unit files (spec/units/*.unit): parsing and placeholder expansion.

A unit names ONE function (or one declaration / set of associated consts) of the real crate by
(module | container header | fn name) and carries the contract that is woven into its text.
Nothing in a unit is executable code of the crate; bodies always come from the expanded source.
"""
import os
import re

INT_BITS = {"u8": 8, "u16": 16, "u32": 32, "u64": 64, "u128": 128, "usize": 64}


class UnitError(Exception):
    pass


class Unit:
    def __init__(self, name, path):
        self.name = name
        self.path = path
        self.kind = "fn"            # fn | decl | consts | raw
        self.source = None          # (mod, header, fnname) with {placeholders}
        self.subst = {}             # type param -> replacement (with {placeholders})
        self.header = None          # emitted impl header (None => free fn / decl)
        self.props = []
        self.ret = None
        self.panics_if = "false"
        self.rewrites = []          # (from_pattern, to_text, rule_id)
        self.closures = []          # dict(pat, param, ret, ensures, requires, lets)
        self.sections = {}          # 'sig' 'pre' 'post' 'impl_items' -> text
        self.loops = {}             # ordinal -> text
        self.anchors = []           # (kind, arg, text)  kind: fn_start | loop_body_start | loop_body_end | loop_before | loop_after | before | after
        self.nloops = None          # expected number of loops (None: = max declared, checked)
        self.drop_generics = []     # fn generic params to drop (in addition to substituted ones)
        self.keep_where = False
        self.attrs = ""             # attributes emitted before a decl
        self.rename = None          # emitted fn name (R5)
        self.pub_fields = True
        self.profiles = "both"      # both | dev | release
        self.trusted = None         # reason string => emitted as external_body even in verify mode
        self.stub_only = False
        self.vacuity = True         # include in the ensures-false vacuity probe
        self.labels = {}            # clause label -> (section, text) for reporting
        self.assoc_types = True     # emit the source impl's `type X = ..;` members
        self.add_generics = ""      # generic parameters added to the emitted fn (impl-level generics moved to the method)
        self.loop_context = False   # emit #[verifier::loop_isolation(false)]: loops see the facts established before them
        self.enum_loops = False     # R26: enumerate()/rev() loops over a slice iterator -> index loops
        self.const_branches = False # R25: drop branches whose `size_of` condition is constant after instantiation
        self.idents = {}            # R23: local identifier renames (names that are keywords inside verus!, e.g. a parameter called `int`)
        self.assoc = {}             # R21: `Self::Name` -> concrete type (associated types of the source trait impl, for inherent emission)
        self.split = None           # R19: (inherent impl header, fn generics, requires expr) for trait-impl bodies Verus cannot take in place


def _parse_rewrite(line, path):
    m = re.match(r'\s*(?:\[(\w+)\]\s*)?"(.*?)"\s*(?:#(\d+)\s*)?=>\s*"(.*)"\s*$', line)
    if not m:
        raise UnitError("%s: bad rewrite line: %s" % (path, line))
    # optional `#n`: only the n-th occurrence (1-based, source order) is rewritten
    return (m.group(2), m.group(4), m.group(1) or "R-local", int(m.group(3)) if m.group(3) else None)


def parse_units(path):
    """A .unit file may hold several units, each starting with `unit: name`."""
    units = []
    cur = None
    sec = None
    buf = []

    def flush():
        nonlocal sec, buf
        if cur is not None and sec is not None:
            text = "\n".join(buf).rstrip() + "\n"
            kind = sec[0]
            if kind in ("sig", "pre", "post", "impl_items", "body"):
                cur.sections[kind] = cur.sections.get(kind, "") + text
            elif kind == "loop":
                cur.loops[sec[1]] = text
            elif kind == "at":
                cur.anchors.append((sec[1], sec[2], text))
        sec = None
        buf = []

    with open(path) as f:
        lines = f.read().split("\n")
    for ln, line in enumerate(lines, 1):
        if line.startswith("# ") or line == "#":
            continue                # unit-file comment (never valid Rust/Verus at column 0), also inside sections
        if sec is None or line.startswith("[") or line.startswith("unit:"):
            m = re.match(r"^unit:\s*(\S+)\s*$", line)
            if m:
                flush()
                cur = Unit(m.group(1), path)
                units.append(cur)
                continue
            m = re.match(r"^\[(.*)\]\s*$", line)
            if m and cur is not None:
                flush()
                parts = m.group(1).split(None, 2)
                if parts[0] in ("sig", "pre", "post", "impl_items", "body"):
                    sec = (parts[0],)
                elif parts[0] == "loop":
                    sec = ("loop", int(parts[1]))
                elif parts[0] == "at":
                    # [at fn_start] | [at loop 2 body_end] | [at before "pat"] | [at after "pat"]
                    rest = m.group(1)[2:].strip()
                    mm = re.match(r'^loop\s+(\d+)\s+(body_start|body_end|before|after)$', rest)
                    m2 = re.match(r'^loop\s+(\d+)\s+(before|after)\s+"(.*)"$', rest)
                    if m2:
                        sec = ("at", "inloop_" + m2.group(2), (int(m2.group(1)), m2.group(3)))
                    elif rest == "fn_start":
                        sec = ("at", "fn_start", None)
                    elif rest == "tail":
                        sec = ("at", "tail", None)
                    elif rest == "tail_unit":
                        sec = ("at", "tail_unit", None)
                    elif mm:
                        sec = ("at", "loop_" + mm.group(2), int(mm.group(1)))
                    else:
                        mm = re.match(r'^(before|after)\s+"(.*)"(?:\s+#(\d+))?$', rest)
                        if not mm:
                            raise UnitError("%s:%d: bad anchor %r" % (path, ln, rest))
                        sec = ("at", mm.group(1), (mm.group(2), int(mm.group(3)) if mm.group(3) else None))
                else:
                    raise UnitError("%s:%d: unknown section %r" % (path, ln, m.group(1)))
                continue
            if sec is None:
                if not line.strip() or line.lstrip().startswith("#"):
                    continue
                if cur is None:
                    raise UnitError("%s:%d: text before first unit" % (path, ln))
                m = re.match(r"^(\w+):\s*(.*)$", line)
                if not m:
                    raise UnitError("%s:%d: bad header line %r" % (path, ln, line))
                k, v = m.group(1), m.group(2).strip()
                if k == "source":
                    parts = [p.strip() for p in v.split("|")]
                    if len(parts) != 3:
                        raise UnitError("%s:%d: source needs mod | header | name" % (path, ln))
                    cur.source = tuple(parts)
                elif k == "kind":
                    cur.kind = v
                elif k == "subst":
                    for kv in v.split(";" if ";" in v else ","):
                        kv = kv.strip()
                        if kv:
                            a, b = kv.split("=", 1)
                            cur.subst[a.strip()] = b.strip()
                elif k == "loop_context":
                    cur.loop_context = v.strip().lower() in ("1", "true", "yes")
                elif k == "enum_loops":
                    cur.enum_loops = v.strip().lower() in ("1", "true", "yes")
                elif k == "const_branches":
                    cur.const_branches = v.strip().lower() in ("1", "true", "yes")
                elif k == "ident":
                    for kv in v.split(","):
                        if kv.strip():
                            a, b = kv.split("=", 1)
                            cur.idents[a.strip()] = b.strip()
                elif k == "assoc":
                    for kv in v.split(","):
                        if kv.strip():
                            a, b = kv.split("=", 1)
                            cur.assoc[a.strip()] = b.strip()
                elif k == "header":
                    cur.header = v
                elif k == "props":
                    cur.props = v.split()
                elif k == "ret":
                    cur.ret = None if v == "-" else v
                elif k == "panics_if":
                    cur.panics_if = v
                elif k == "rewrite":
                    cur.rewrites.append(_parse_rewrite(v, path))
                elif k == "closure":
                    kv = dict(re.findall(r'(\w+)="(.*?)"(?=\s+\w+="|\s*$)', v))
                    if "pat" not in kv or "param" not in kv:
                        raise UnitError("%s:%d: closure needs pat= and param=" % (path, ln))
                    cur.closures.append(kv)
                elif k == "loops":
                    cur.nloops = int(v)
                elif k == "drop_generics":
                    cur.drop_generics = v.split()
                elif k == "keep_where":
                    cur.keep_where = v == "true"
                elif k == "attrs":
                    cur.attrs = v
                elif k == "rename":
                    cur.rename = v
                elif k == "profiles":
                    cur.profiles = v
                elif k == "trusted":
                    cur.trusted = v
                elif k == "add_generics":
                    cur.add_generics = v
                elif k == "split":
                    parts = [x.strip() for x in v.split("|")]
                    if len(parts) != 3:
                        raise UnitError("%s:%d: split needs `inherent impl header | fn generics | requires`" % (path, ln))
                    cur.split = tuple(parts)
                elif k == "assoc_types":
                    cur.assoc_types = v == "true"
                elif k == "vacuity":
                    cur.vacuity = v == "true"
                else:
                    raise UnitError("%s:%d: unknown key %r" % (path, ln, k))
                continue
        buf.append(line)
    flush()
    for u in units:
        if u.kind in ("fn", "decl", "consts") and u.source is None:
            raise UnitError("%s: unit %s has no source" % (path, u.name))
    return units


def load_all(unit_dir):
    out = {}
    for fn in sorted(os.listdir(unit_dir)):
        if fn.endswith(".unit"):
            for u in parse_units(os.path.join(unit_dir, fn)):
                if u.name in out:
                    raise UnitError("duplicate unit %s" % u.name)
                out[u.name] = u
    return out


def expand(text, ctx):
    """Replace {X}, {X.bits}, {X.bytes}, {X.max}, {X.hexmask} placeholders. `{{`/`}}` are not
    needed: only {IDENT} or {IDENT.attr} with IDENT in ctx are touched, everything else is
    left alone (Rust blocks are full of braces)."""
    def rep(m):
        name, attr = m.group(1), m.group(2)
        if name not in ctx:
            return m.group(0)
        v = ctx[name]
        if attr is None:
            return v
        if v not in INT_BITS:
            raise UnitError("placeholder {%s.%s}: %s is not an integer type" % (name, attr, v))
        b = INT_BITS[v]
        if attr == "bits":
            return str(b)
        if attr == "bytes":
            return str(b // 8)
        if attr == "nibbles":
            return str(b // 4)
        if attr == "max":
            return "0x" + "f" * (b // 4) + v
        if attr == "wide":
            return {8: "u16", 16: "u32", 32: "u64", 64: "u128"}[b]
        if attr == "widepow":
            return "0x1" + "0" * (b // 4) + {8: "u16", 16: "u32", 32: "u64", 64: "u128"}[b]
        if attr == "pow":
            return "0x1" + "0" * (b // 4) + "int"
        raise UnitError("unknown placeholder attribute %s" % attr)
    def forbits(m):
        name, sep, body = m.group(1), m.group(2), m.group(3)
        v = ctx.get(name, name)
        if v not in INT_BITS:
            raise UnitError("@FORBITS: %s is not an integer type" % name)
        return sep.join(body.replace("#", str(j)) for j in range(INT_BITS[v]))
    text = re.sub(r"@FORBITS\{(\w+)\}\{([^{}]*)\}\{(.*?)\}@", forbits, text, flags=re.S)
    return re.sub(r"\{([A-Za-z_][A-Za-z_0-9]*)(?:\.([a-z]+))?\}", rep, text)
