"""Kani on the real crate: counterexample search, native replay, bounded stand-ins (DESIGN section 6)."""
import json
import os
import re
import shutil
import subprocess
import sys
import time

HERE = os.path.dirname(os.path.abspath(__file__))
ROOT = os.path.dirname(HERE)
KANI_SRC = os.path.join(ROOT, "kani")


def _copy_crate(scratch):
    dst = os.path.join(scratch, "kani")
    if not os.path.exists(dst):
        shutil.copytree(KANI_SRC, dst, ignore=shutil.ignore_patterns("target"))
        repo = os.environ.get("VERIF_REPO", "/repo")
        if repo != "/repo":
            ct = os.path.join(dst, "Cargo.toml")
            t = open(ct).read().replace('path = "/repo"', 'path = "%s"' % repo)
            open(ct, "w").write(t)
        lock = os.path.join(repo, "Cargo.lock")
        if os.path.exists(lock):
            shutil.copy(lock, os.path.join(dst, "Cargo.lock"))
    return dst


def _registry():
    src = open(os.path.join(KANI_SRC, "src", "registry.rs")).read()
    src = src[src.index("registry!(\n"):]
    k = re.search(r"kani:\s*\[(.*?)\]", src, re.S).group(1)
    n = re.search(r"native:\s*\[(.*?)\]", src, re.S).group(1)
    f = lambda t: [x.strip() for x in t.replace("\n", " ").split(",") if x.strip()]
    return f(k), f(n)


def all_harnesses():
    k, n = _registry()
    return k + n


def harnesses_for(prop):
    sys.path.insert(0, os.path.join(ROOT, "spec"))
    import plan
    prefixes = getattr(plan, "PROP_HARNESS", {}).get(prop, [])
    names = all_harnesses()
    return [n for n in names if any(n.startswith(p) for p in prefixes)]


def kani_feasible(name):
    """Kani proof harnesses exist only for the `kani:` list of kani/src/registry.rs: harnesses whose every operand
    type is a small Bvf (<= 32 bits, u32 reference model) and that need no panic catching / String / Vec machinery;
    the 128-bit types (Bvf<u64,2>, Bvd, Bv) are covered by native random search only (not bounded-exhaustive)"""
    return name in _registry()[0]


def _kani_once(names, scratch, jobs, timeout, playback):
    crate = _copy_crate(scratch)
    env = dict(os.environ)
    env["CARGO_NET_OFFLINE"] = "true"
    env["CARGO_TARGET_DIR"] = os.path.join(scratch, "kani_target")
    cmd = ["cargo", "kani", "--output-format", "terse", "--exact"]
    if playback:
        cmd += ["-Z", "concrete-playback", "--concrete-playback=print"]     # incompatible with -j > 1
    else:
        cmd += ["-j", str(jobs)]
    for n in names:
        cmd += ["--harness", "registry::proofs::" + n]
    try:
        p = subprocess.run(cmd, cwd=crate, env=env, stdout=subprocess.PIPE, stderr=subprocess.STDOUT, timeout=timeout)
        return p.stdout.decode("utf-8", "replace")
    except subprocess.TimeoutExpired as e:
        return (e.stdout or b"").decode("utf-8", "replace") + "\nTIMEOUT"


def _parse(out, res):
    for m in re.finditer(r"Checking harness registry::proofs::(\w+)\.\.\.(.*?)(?=Checking harness |Manual Harness Summary|\Z)", out, re.S):
        name, body = m.group(1), m.group(2)
        if name not in res:
            continue
        if "VERIFICATION:- SUCCESSFUL" in body:
            res[name]["status"] = "ok"
        elif "VERIFICATION:- FAILED" in body:
            res[name]["status"] = "failed"
            res[name]["failed_checks"] = re.findall(r"Failed Checks: (.*)", body)
        tm = re.search(r"Verification Time: ([0-9.]+)s", body)
        if tm:
            res[name]["time_s"] = float(tm.group(1))
    # with -j the per-harness bodies are not printed; fall back to the summary lines
    for m in re.finditer(r"Verification failed for - registry::proofs::(\w+)", out):
        if m.group(1) in res:
            res[m.group(1)]["status"] = "failed"
    for m in re.finditer(r"Concrete playback unit test for `registry::proofs::(\w+)`:\s*```(.*?)```", out, re.S):
        name, body = m.group(1), m.group(2)
        bs = []
        for v in re.findall(r"vec!\[([0-9, ]*)\]", body):
            for x in v.split(","):
                x = x.strip()
                if x:
                    bs.append(int(x))
        if name in res and res[name]["bytes"] is None:
            res[name]["bytes"] = bs


def run_kani(names, scratch, jobs=12, timeout=1500, playback=True):
    """-> (dict name -> {'status': 'ok'|'failed'|'unknown', 'failed_checks': [...], 'bytes': [...] or None, 'time_s'}, log, seconds)"""
    t0 = time.time()
    res = {n: {"status": "unknown", "failed_checks": [], "bytes": None} for n in names}
    out = _kani_once(names, scratch, jobs, timeout, False)
    _parse(out, res)
    if "Complete - " in out:
        m = re.search(r"Complete - (\d+) successfully verified harnesses, (\d+) failures, (\d+) total", out)
        if m and int(m.group(2)) == 0 and int(m.group(1)) == len(names):
            for n in names:
                if res[n]["status"] == "unknown":
                    res[n]["status"] = "ok"
    failed = [n for n in names if res[n]["status"] == "failed"]
    log = out
    if playback and failed:
        out2 = _kani_once(failed[:4], scratch, 1, timeout, True)
        _parse(out2, res)
        log += "\n==== playback run ====\n" + out2
    return res, log, time.time() - t0


def build_replay(scratch, profile="release"):
    """native build of the harness crate against /repo's working tree (release: no debug assertions; dev: with them)"""
    crate = _copy_crate(scratch)
    env = dict(os.environ)
    env["CARGO_NET_OFFLINE"] = "true"
    env["CARGO_TARGET_DIR"] = os.path.join(scratch, "native_target")
    cmd = ["cargo", "build", "--offline", "--bin", "replay"] + (["--release"] if profile == "release" else [])
    p = subprocess.run(cmd, cwd=crate, env=env, stdout=subprocess.PIPE, stderr=subprocess.STDOUT)
    exe = os.path.join(scratch, "native_target", "release" if profile == "release" else "debug", "replay")
    if p.returncode != 0 or not os.path.exists(exe):
        raise RuntimeError("native build of the replay harness failed:\n" + p.stdout.decode("utf-8", "replace")[-2000:])
    return exe


def native_replay(exe, name, bs):
    hexs = "".join("%02x" % b for b in bs)
    p = subprocess.run([exe, name, hexs], stdout=subprocess.PIPE, stderr=subprocess.PIPE)
    out = p.stdout.decode("utf-8", "replace").strip().split("\n")[-1] if p.stdout else ""
    if p.returncode < 0 or p.returncode >= 128:
        out = "FAIL %s (the real code killed the process on this input: exit status %d; %s)" % (
            name, p.returncode, p.stderr.decode("utf-8", "replace").strip().split("\n")[-1][:200])
    panic = re.findall(r"panicked at ([^\n]*)\n([^\n]*)", p.stderr.decode("utf-8", "replace"))
    return p.returncode, out, (panic[0] if panic else None)


def failing_rc(rc):
    """exit status of the replay binary that means 'the real code violates the executable contract on this input':
    1 = contract assertion or unexpected panic; negative / 134 etc. = the process was killed (abort, allocation failure)"""
    return rc == 1 or rc < 0 or rc >= 128


def fuzz(exe, names, runs, seed, workers=12):
    """native random search with the executable contracts; -> (found: name -> bytes, stats: name -> nonvacuous runs)"""
    import concurrent.futures
    found, stats = {}, {}

    def one(n):
        p = subprocess.run([exe, "--fuzz", n, str(runs), str(seed)], stdout=subprocess.PIPE, stderr=subprocess.DEVNULL)
        out = p.stdout.decode()
        if p.returncode not in (0, 1) or not re.search(r"^(ok|FAIL) ", out, re.M):
            # the process died (abort / allocation failure / stack overflow: not a catchable panic). The search is
            # deterministic, so run it again recording each input before it is executed; the last one recorded is the killer.
            tr = exe + ".trace." + n
            env = dict(os.environ, VERIF_FUZZ_TRACE=tr)
            subprocess.run([exe, "--fuzz", n, str(runs), str(seed)], stdout=subprocess.DEVNULL, stderr=subprocess.DEVNULL, env=env)
            try:
                name, hexs = open(tr).read().split()
                out = "FAIL %s %s\n" % (name, hexs)
            except Exception:
                out = ""
        return n, out
    with concurrent.futures.ThreadPoolExecutor(max_workers=workers) as ex:
        for n, out in ex.map(one, names):
            for line in out.split("\n"):
                if line.startswith("FAIL "):
                    _, name, hexs = line.split()
                    found[name] = [int(hexs[i:i + 2], 16) for i in range(0, len(hexs), 2)]
                elif line.startswith("ok "):
                    m = re.search(r"nonvacuous=(\d+)", line)
                    stats[n] = int(m.group(1)) if m else 0
    return found, stats


def describe(exe, name, bs):
    rc, out, panic = native_replay(exe, name, bs)
    return {"harness": name, "input_bytes": bs, "input_hex": "".join("%02x" % b for b in bs),
            "replayed_on_real_code": failing_rc(rc), "replay_result": out, "failed_assertion": list(panic) if panic else None,
            "replay_cmd": "bin/check --replay <this file>"}


def search(prop, unit, violations, scratch, seed=1):
    """Find an input on which the REAL crate violates the executable contract of `prop`. -> dict or None"""
    names = harnesses_for(prop)
    if not names:
        return None
    exe = build_replay(scratch)
    # 1. cheap: native random inputs
    found, _ = fuzz(exe, names, 200000, seed or 1)
    src = "native random search (executable contract, %d harnesses)" % len(names)
    kani_log = ""
    if not found:
        knames = [n for n in names if kani_feasible(n)]
        res, kani_log, secs = run_kani(knames, scratch, timeout=900) if knames else ({}, "", 0.0)
        for n, r in res.items():
            if r["status"] == "failed" and r["bytes"]:
                found[n] = r["bytes"]
        src = "kani 0.68 / cbmc (bounded: all values of the small harness types), %d harnesses, %.0fs" % (len(knames), secs)
    for n, bs in found.items():
        rc, out, panic = native_replay(exe, n, bs)
        if failing_rc(rc):
            return {"harness": n, "input_bytes": bs, "input_hex": "".join("%02x" % b for b in bs), "found_by": src,
                    "replayed_on_real_code": True, "replay_result": out, "failed_assertion": list(panic) if panic else None,
                    "replay_cmd": "bin/check --replay <this file>"}
    return None


def bounded(prop, scratch, names=None):
    """run the bounded stand-in harnesses of a property; -> (results dict, seconds)"""
    names = names or harnesses_for(prop)
    if not names:
        return {}, 0.0
    res, log, secs = run_kani(names, scratch, playback=True)
    return res, secs


def replay(cexd):
    import tempfile
    scratch = tempfile.mkdtemp(prefix="bva-replay-")
    try:
        exe = build_replay(scratch)
        rc, out, panic = native_replay(exe, cexd["harness"], cexd["input_bytes"])
        print(out)
        if panic:
            print("panicked at", panic[0], panic[1])
        return 1 if failing_rc(rc) else 0
    finally:
        shutil.rmtree(scratch, ignore_errors=True)
