"""rustc's own macro expansion of /repo's working tree, dev and release profiles."""
import hashlib
import os
import shutil
import subprocess

REPO = os.environ.get("VERIF_REPO", "/repo")


class ExpandError(Exception):
    pass


def tree_hash():
    h = hashlib.sha256()
    for root, dirs, files in os.walk(os.path.join(REPO, "src")):
        dirs.sort()
        for fn in sorted(files):
            p = os.path.join(root, fn)
            h.update(p.encode())
            with open(p, "rb") as f:
                h.update(f.read())
    for fn in ("Cargo.toml", "Cargo.lock"):
        p = os.path.join(REPO, fn)
        if os.path.exists(p):
            with open(p, "rb") as f:
                h.update(f.read())
    return h.hexdigest()[:20]


def expand(profile, scratch):
    """-> path of expanded source. profile: dev | release"""
    cache = os.environ.get("VERIF_CACHE")
    key = tree_hash()
    if cache:
        cp = os.path.join(cache, key, profile + ".rs")
        if os.path.exists(cp):
            return cp
    out = os.path.join(scratch, "expanded_%s.rs" % profile)
    tdir = os.path.join(scratch, "target_" + profile)
    cmd = ["cargo", "+nightly", "rustc", "--lib", "--offline", "--target-dir", tdir]
    if profile == "release":
        cmd.append("--release")
    cmd += ["--", "-Zunpretty=expanded"]
    env = dict(os.environ)
    env["CARGO_NET_OFFLINE"] = "true"
    p = subprocess.run(cmd, cwd=REPO, stdout=subprocess.PIPE, stderr=subprocess.PIPE, env=env)
    shutil.rmtree(tdir, ignore_errors=True)
    if p.returncode != 0 or not p.stdout.strip():
        raise ExpandError("rustc expansion failed (%s):\n%s" % (profile, p.stderr.decode("utf-8", "replace")[-4000:]))
    with open(out, "wb") as f:
        f.write(p.stdout)
    if cache:
        os.makedirs(os.path.join(cache, key), exist_ok=True)
        shutil.copy(out, os.path.join(cache, key, profile + ".rs"))
    return out
