"""Mechanical scan of the emitted files for everything that is assumed rather than proved."""
import re


def scan(texts):
    out = set()
    for t in texts:
        for m in re.finditer(r"assume_specification\s*(?:<[^\[]*>)?\s*\[\s*([^\]]+?)\s*\]", t):
            out.add("T1 assumed std contract: " + " ".join(m.group(1).split()))
        for m in re.finditer(r"#\[verifier::external_body\]\s*(?:pub\s+)?(?:proof\s+|exec\s+)?fn\s+(\w+)", t):
            out.add("external_body (contract assumed, body not verified here): fn " + m.group(1))
        if re.search(r"\bassume\s*\(", t):
            out.add("CHEAT: assume( present in emitted file")
        if re.search(r"\badmit\s*\(", t):
            out.add("CHEAT: admit( present in emitted file")
    base = [
        "compiler-generated derives: #[derive(PartialEq)] on the field-less enums Bit/Endianness/ConvertionError is structural equality (Verus `Structural`); #[derive(Clone, Copy)] copies",
        "T5 machine model: 64-bit little-endian target (usize = 64 bits)",
        "A-size: storage smaller than usize::MAX/2 bits (size_ok) is a precondition of every unit",
        "A-new: Bvf::new / Bvd::new are called with well-formed parts (only public way to build a non-wf vector)",
        "tools: rustc macro expansion + pretty printer, /verif/engine extractor (rewrite table R1-R12, DESIGN 2.2), Verus 0.2026.09.13, Z3",
    ]
    return sorted(out) + base
