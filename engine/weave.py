"""Extract one function of the real crate from the expanded source, apply the fixed rewrite
table (DESIGN 2.2) and weave the unit's contract into it.

Output is a list of segments (text, origin) so the assembler can map verifier diagnostics back
to either a line of the real function ('src') or a labelled clause of the unit ('woven').
"""
import hashlib
import os
import re

from rstok import tokenize, norm, Tok
from units import expand, INT_BITS, UnitError

CONST_NAMES = {"ZERO", "ONE", "MIN", "MAX", "BITS"}
CONV_RENAMES = {"from": "v_from", "into": "v_into", "try_from": "v_try_from", "try_into": "v_try_into"}
IA_METHODS = {"get_int", "set_int", "int_len"}


_PINS = None
def _loop_pins():
    global _PINS
    if _PINS is None:
        import json
        f = os.path.join(os.path.dirname(os.path.dirname(os.path.abspath(__file__))), "spec", "loopheads.json")
        _PINS = json.load(open(f)) if os.path.exists(f) else {}
    return _PINS


class LostAnchor(Exception):
    """The real source no longer has the shape a unit was written against: exit 2, never an alarm."""


class Seg:
    __slots__ = ("text", "origin", "label")

    def __init__(self, text, origin, label=None):
        self.text = text
        self.origin = origin   # 'src' | 'woven' | 'glue'
        self.label = label


def _find_seq(toks, a, b, pat):
    """all start indices in [a,b) where the token texts match pat (list of str)"""
    out = []
    n = len(pat)
    if n == 0:
        return out
    first = pat[0]
    for i in range(a, b - n + 1):
        if toks[i].text == first:
            ok = True
            for k in range(1, n):
                if toks[i + k].text != pat[k]:
                    ok = False
                    break
            if ok:
                out.append(i)
    return out


def _angle_close(toks, i):
    """index of the `>` matching `<` at i (tokens are single chars, `->`/`=>` are units)"""
    depth = 0
    j = i
    while True:
        t = toks[j]
        if t.kind == "p":
            if t.text == "<":
                depth += 1
            elif t.text == ">":
                depth -= 1
                if depth == 0:
                    return j
        j += 1


class Woven:
    def __init__(self):
        self.segs = []
        self.rules = []        # (rule id, count)
        self.src_hash = None
        self.loops = 0
        self.counts = {}       # obligation kind -> n


def split_clauses(text):
    """Split a requires/ensures/invariant list on top-level commas."""
    out = []
    depth = 0
    cur = []
    i = 0
    while i < len(text):
        c = text[i]
        if c in "([{":
            depth += 1
        elif c in ")]}":
            depth -= 1
        elif c == "|" and False:
            pass
        if c == "," and depth == 0:
            s = "".join(cur).strip()
            if s:
                out.append(s)
            cur = []
        else:
            cur.append(c)
        i += 1
    s = "".join(cur).strip()
    if s:
        out.append(s)
    return out


def parse_sig_section(text):
    """-> dict kw -> clause text for requires/ensures/decreases/returns (top-level keywords at line start)."""
    parts = {}
    cur = None
    for line in text.split("\n"):
        m = re.match(r"^\s*(requires|ensures|decreases|returns|no_unwind|opens_invariants)\b(.*)$", line)
        if m:
            cur = m.group(1)
            parts.setdefault(cur, [])
            parts[cur].append(m.group(2))
        elif cur is not None:
            parts[cur].append(line)
    return {k: "\n".join(v) for k, v in parts.items()}


class Weaver:
    def __init__(self, index, profile):
        self.idx = index
        self.profile = profile

    # ---------------------------------------------------------------------------------
    def locate(self, unit, ctx):
        mod, header, name = unit.source
        header = expand(header, ctx)
        name = expand(name, ctx)
        hn = norm(tokenize(header)) if header not in ("", "-") else ""
        fns = self.idx.find_fn(mod, hn, name)
        if len(fns) != 1:
            raise LostAnchor("unit %s: source key (%s | %s | %s) matches %d items" % (unit.name, mod, hn, name, len(fns)))
        return fns[0]

    # ---------------------------------------------------------------------------------
    def weave_fn(self, unit, ctx, mode, name_suffix=None):
        """mode: 'verify' | 'stub' | 'vacuity'"""
        f = self.locate(unit, ctx)
        toks = self.idx.toks
        src = self.idx.src
        pairs = self.idx.pairs
        w = Woven()
        w.src_hash = hashlib.sha256(f.text().encode()).hexdigest()[:16]
        subst = {k: expand(v, ctx) for k, v in unit.subst.items()}
        rules = {}

        def fired(r, n=1):
            rules[r] = rules.get(r, 0) + n

        if f.body_open is None:
            raise LostAnchor("unit %s: source function has no body" % unit.name)

        # ---- signature ------------------------------------------------------------
        i = f.sig_start
        quals = []
        while toks[i].text != "fn":
            if toks[i].text == "pub" and toks[i + 1].text == "(":
                i = pairs[i + 1] + 1
                quals.append("pub")
                continue
            if toks[i].text == "const":
                fired("R9b:const-fn")
            else:
                quals.append(toks[i].text)
            i += 1
        fn_i = i
        name = toks[fn_i + 1].text
        out_name = unit.rename and expand(unit.rename, ctx) or name
        if name in CONV_RENAMES and not unit.rename:
            out_name = CONV_RENAMES[name]
            fired("R12:conv-rename")
        j = fn_i + 2
        generics_txt = ""
        if toks[j].text == "<":
            gc = _angle_close(toks, j)
            params = []
            start = j + 1
            depth = 0
            k = j + 1
            while k <= gc:
                t = toks[k]
                if t.kind == "p":
                    if t.text in "<([{":
                        depth += 1
                    elif t.text in ")]}":
                        depth -= 1
                    elif t.text == ">":
                        if k == gc:
                            if start < k:
                                params.append((start, k - 1))
                            break
                        depth -= 1
                    elif t.text == "," and depth == 0:
                        params.append((start, k - 1))
                        start = k + 1
                k += 1
            kept = []
            for (a, b) in params:
                pname = toks[a + 1].text if toks[a].text == "const" else toks[a].text
                if pname in subst or pname in unit.drop_generics:
                    fired("R1:instantiate")
                    continue
                kept.append(self._render_tokens(a, b, subst, fired, unit, ctx))
            if kept:
                generics_txt = "<" + ", ".join(kept) + ">"
            j = gc + 1
        if unit.add_generics:
            extra = expand(unit.add_generics, ctx).strip()
            if extra.startswith("<"):
                extra = extra[1:-1]
            generics_txt = "<" + extra + (", " + generics_txt[1:-1] if generics_txt else "") + ">"
            fired("R19:impl-generics-to-method")
        assert toks[j].text == "(", "unit %s: expected ( in signature" % unit.name
        pc = pairs[j]
        mut_self = toks[j + 1].text == "mut" and toks[j + 2].text == "self"
        params_txt = self._render_tokens(j, pc, subst, fired, unit, ctx)
        if mut_self:
            # R14: Verus does not take `mut self`; a `mut` parameter is a local rebinding
            params_txt = re.sub(r"^\(\s*mut\s+self\b", "(self", params_txt)
            fired("R14:mut-self")
        j = pc + 1
        ret_txt = ""
        if toks[j].text == "->":
            k = j + 1
            depth = 0
            while k < f.body_open:
                t = toks[k]
                if t.kind == "id" and t.text == "where" and depth == 0:
                    break
                if t.kind == "p" and t.text in "<([":
                    depth += 1
                elif t.kind == "p" and t.text in ">)]":
                    depth -= 1
                k += 1
            rt = self._render_tokens(j + 1, k - 1, subst, fired, unit, ctx).strip()
            if unit.ret:
                ret_txt = " -> (%s: %s)" % (unit.ret, rt)
            else:
                ret_txt = " -> " + rt
            j = k
        where_txt = ""
        if toks[j].text == "where":
            if unit.keep_where:
                where_txt = " " + self._render_tokens(j, f.body_open - 1, subst, fired, unit, ctx)
            else:
                fired("R1:drop-where")

        sig_text = unit.sections.get("sig", "")
        sig_text = expand(sig_text, ctx)
        if name_suffix:
            out_name += name_suffix
        head = "%sfn %s%s%s%s%s" % ("".join(q + " " for q in quals), out_name, generics_txt, params_txt, ret_txt, where_txt)

        if mode == "vacuity":
            parts = parse_sig_section(sig_text)
            req = parts.get("requires")
            dec = parts.get("decreases")
            sig_text = ""
            if req:
                sig_text += "    requires" + req.rstrip().rstrip(",") + ",\n"
            sig_text += "    ensures false,\n"
            if dec:
                sig_text += "    decreases" + dec + "\n"

        w.head_parts = dict(quals=quals, name=out_name, generics=generics_txt, params=params_txt, ret=ret_txt)
        w.sig_text = sig_text
        w.segs.append(Seg(head + "\n", "src"))
        if sig_text.strip():
            w.segs.append(Seg(sig_text if sig_text.endswith("\n") else sig_text + "\n", "woven", "sig"))
        parts = parse_sig_section(expand(unit.sections.get("sig", ""), ctx))
        w.counts["requires"] = len(split_clauses(parts.get("requires", "")))
        w.counts["ensures"] = len(split_clauses(parts.get("ensures", "")))

        if mode == "stub" or (unit.trusted and mode != "stub"):
            # contract only; body is not visible to callers
            w.segs.insert(0, Seg("#[verifier::external_body]\n", "glue"))
            w.segs.append(Seg("{ unimplemented!() }\n", "glue"))
            w.rules = sorted(rules.items())
            return w

        # loops see the facts established before them (values of locals that the loop does not modify): a `let` hoisted out of a
        # loop by a refactoring must not cost the proof its value (measured: refactoring L2). Invariants are still required for
        # everything the loop modifies.
        # Opt-in per unit (`loop_context: true`): as a global default it changed the outcome of two existing proofs (bvd.shr_assign, bvd.shr_ref)
        # and Verus rejects it for loops with an `ensures` clause.
        if getattr(unit, "loop_context", False):
            w.segs.insert(0, Seg("#[verifier::loop_isolation(false)]\n", "glue"))
        # ---- body -----------------------------------------------------------------
        bo, bc = f.body_open, f.body_close
        ins_before = {}
        ins_after = {}
        replace = {}   # start idx -> (end idx inclusive, text, origin,label)

        def add_before(i, text, label):
            ins_before.setdefault(i, []).append((text, label))

        def add_after(i, text, label):
            ins_after.setdefault(i, []).append((text, label))

        # loops (pre-order)
        loops = []
        k = bo + 1
        while k < bc:
            t = toks[k]
            if t.kind == "id" and t.text in ("for", "while", "loop"):
                prev = toks[k - 1]
                # `for` in HRTB / impl-for never occurs inside bodies; guard anyway
                if t.text == "for" and toks[k + 1].text == "<":
                    k += 1
                    continue
                m = k + 1
                while True:
                    tt = toks[m]
                    if tt.kind == "p" and tt.text == "{":
                        break
                    if tt.kind == "p" and tt.text in "([":
                        m = pairs[m] + 1
                        continue
                    m += 1
                loops.append((k, m, pairs[m]))
            k += 1
        w.loops = len(loops)
        # shape pin: the loop contracts of a unit were written for specific loop headers (`while i > 0`, `for i in 0..n`); if a header's
        # token text differs from the one recorded in spec/loopheads.json the contract no longer addresses this loop: lost anchor
        # (undecided), never a failed obligation (measured: refactoring H3 turned `while i > 0 {..; i -= 1}` into `for j in (0..i).rev()`)
        heads = [" ".join(t.text for t in toks[kw:hb]) for (kw, hb, hc) in loops]
        w.loop_heads = heads
        if not hasattr(self, "seen_heads"):
            self.seen_heads = {}
        self.seen_heads.setdefault(unit.name, set()).add(tuple(heads))
        pinned = _loop_pins().get(unit.name)
        if pinned is not None and mode == "verify" and unit.loops:
            want = sorted(unit.loops)
            ok = any(all(o - 1 < len(v) and o - 1 < len(heads) and v[o - 1] == heads[o - 1] for o in want) for v in pinned)
            if not ok:
                o = [o for o in want if not any(o - 1 < len(v) and o - 1 < len(heads) and v[o - 1] == heads[o - 1] for v in pinned)]
                k = (o or want)[0]
                raise LostAnchor("unit %s: loop %d is now `%s`; its contract was written for `%s`" % (
                    unit.name, k, (heads[k - 1] if k - 1 < len(heads) else "<absent>")[:80], (pinned[0][k - 1] if k - 1 < len(pinned[0]) else "<absent>")[:80]))
        declared = max(list(unit.loops.keys()) + [a[1] for a in unit.anchors if a[0].startswith("loop_")]
                       + [a[1][0] for a in unit.anchors if a[0].startswith("inloop_")] + [0])
        if unit.nloops is not None and unit.nloops != len(loops):
            raise LostAnchor("unit %s: expected %d loops, source has %d" % (unit.name, unit.nloops, len(loops)))
        if declared > len(loops):
            raise LostAnchor("unit %s: contract addresses loop %d, source has %d loops" % (unit.name, declared, len(loops)))
        if mode == "verify" and len(loops) > 0 and unit.nloops is None:
            raise LostAnchor("unit %s: has loops but declares no `loops:` count" % unit.name)
        ninv = 0
        for ordn, text in unit.loops.items():
            kw, hb, hc = loops[ordn - 1]
            text = expand(text, ctx)
            mi = re.match(r"^\s*iter:\s*(\w+)\s*\n", text)
            if mi:
                # name the ghost iterator of a `for` loop: `for x in NAME: expr`
                text = text[mi.end():]
                kin = kw + 1
                while toks[kin].text != "in":
                    kin += 1
                add_after(kin, " " + mi.group(1) + ": ", "loop %d iter" % ordn)
            add_before(hb, "\n" + text, "loop %d" % ordn)
            for part in re.split(r"\b(?:invariant_except_break|invariant|ensures|decreases)\b", text):
                ninv += len(split_clauses(part))
        w.counts["loop_clauses"] = ninv

        nassert = 0
        for kind, arg, text in unit.anchors:
            text = expand(text, ctx)
            nassert += len(re.findall(r"\bassert\b", text))
            label = "%s %s" % (kind, arg if not isinstance(arg, tuple) else " #".join(str(a) for a in arg if a is not None))
            if kind == "fn_start":
                add_after(bo, "\n" + text, label)
            elif kind == "tail_unit":
                # end of a function that returns (): right before the closing brace (robust against removed statements)
                add_before(bc, text, label)
            elif kind == "tail":
                # R16: bind the tail expression so that a proof block can follow it
                ts = self._tail_start(bo, bc)
                if ts is None:
                    raise LostAnchor("unit %s: no tail expression" % unit.name)
                add_before(ts, "let verif_tail =", "R16")
                add_before(bc, ";\n" + text + "\nverif_tail", label)
                fired("R16:tail-binding")
            elif kind.startswith("loop_"):
                kw, hb, hc = loops[arg - 1]
                if kind == "loop_body_start":
                    add_after(hb, "\n" + text, label)
                elif kind == "loop_body_end":
                    add_before(hc, text, label)
                elif kind == "loop_before":
                    add_before(kw, text, label)
                elif kind == "loop_after":
                    add_after(hc, "\n" + text, label)
            elif kind in ("inloop_before", "inloop_after"):
                kw, hb, hc = loops[arg[0] - 1]
                pat = [t.text for t in tokenize(expand(arg[1], ctx))]
                hits = _find_seq(toks, hb, hc + 1, pat)
                if len(hits) != 1:
                    raise LostAnchor("unit %s: anchor %s %r occurs %d times in loop %d" % (unit.name, kind, arg[1], len(hits), arg[0]))
                if kind == "inloop_before":
                    add_before(hits[0], text, label)
                else:
                    add_after(hits[0] + len(pat) - 1, "\n" + text, label)
            elif kind in ("before", "after"):
                patstr, nth = arg
                pat = [t.text for t in tokenize(expand(patstr, ctx))]
                hits = _find_seq(toks, bo, bc + 1, pat)
                if nth is None:
                    if len(hits) != 1:
                        raise LostAnchor("unit %s: anchor %s %r occurs %d times" % (unit.name, kind, patstr, len(hits)))
                    hit = hits[0]
                else:
                    # `#k`: the k-th occurrence; the total number of occurrences is part of the unit's shape
                    if len(hits) < nth:
                        raise LostAnchor("unit %s: anchor %s %r #%d: only %d occurrences" % (unit.name, kind, patstr, nth, len(hits)))
                    hit = hits[nth - 1]
                if kind == "before":
                    add_before(hit, text, label)
                else:
                    add_after(hit + len(pat) - 1, "\n" + text, label)
        w.counts["asserts"] = nassert

        # unit-local rewrites (R6 closure annotation, R7 adapter stubs, R11 operator desugar ...)
        for rw in unit.rewrites:
            frm, to, rid = rw[0], rw[1], rw[2]
            nth = rw[3] if len(rw) > 3 else None
            pat = [t.text for t in tokenize(expand(frm, ctx))]
            hits = _find_seq(toks, bo, bc + 1, pat)
            if nth is not None:
                hits = hits[nth - 1:nth]
            # a rewrite whose pattern no longer occurs has nothing to rewrite: the text goes to Verus as it is (if what
            # replaced the pattern is outside Verus's subset the file is rejected by the front end => undecided, never an alarm)
            if not hits:
                fired(rid + ":absent", 1)
            for h in hits:
                replace[h] = (h + len(pat) - 1, expand(to, ctx), "src", None)
            fired(rid, len(hits))

        # R6 closures: parameter patterns are replaced by typed parameters (+ `let` for `&v` patterns),
        # the closure body text is kept verbatim and wrapped in a block carrying the declared ensures
        for c in unit.closures:
            pat = [t.text for t in tokenize(expand(c["pat"], ctx))]
            hits = _find_seq(toks, bo, bc + 1, pat)
            if len(hits) != 1:
                raise LostAnchor("unit %s: closure pattern %r occurs %d times" % (unit.name, c["pat"], len(hits)))
            h = hits[0]
            last = h + len(pat) - 1          # closing `|` of the parameter list
            # body: up to the token closing the enclosing bracket, or a depth-0 comma
            k = last + 1
            while True:
                tt = toks[k]
                if tt.kind == "p" and tt.text in "([{":
                    k = pairs[k] + 1
                    continue
                if tt.kind == "p" and tt.text in ")]},;":
                    break
                k += 1
            body_last = k - 1
            head = "|%s|" % expand(c["param"], ctx)
            if c.get("ret"):
                head += " -> (%s)" % expand(c["ret"], ctx)
            if c.get("requires"):
                head += " requires " + expand(c["requires"], ctx)
            if c.get("ensures"):
                head += " ensures " + expand(c["ensures"], ctx)
            lets = expand(c.get("lets", ""), ctx)
            replace[h] = (last, head + " { " + lets, "src", None)
            add_after(body_last, " }", "closure")
            fired("R6:closure")

        # R4 panics
        npanic = 0
        for h in _find_seq(toks, bo, bc, ["::", "core", "::", "panicking", "::"]):
            callee = toks[h + 5].text
            if callee not in ("panic", "panic_fmt"):
                raise LostAnchor("unit %s: unknown panicking entry %s" % (unit.name, callee))
            close = pairs[h + 6]
            replace[h] = (close, "verif_panic(Ghost(%s))" % expand(unit.panics_if, ctx), "src", None)
            npanic += 1
        if npanic:
            fired("R4:panic", npanic)
        w.counts["panic_sites"] = npanic

        # R7 (generic form): `repeat(X).take(Y).collect()` -> `verif_repeat_take_collect_g(X, Y)` wherever a unit-local rewrite
        # did not already replace it (e.g. after a harmless refactoring that renamed the arguments)
        for h in _find_seq(toks, bo, bc, ["repeat", "("]):
            if any(s0 <= h <= e0 for s0, (e0, _, _, _) in replace.items()):
                continue
            c1 = pairs[h + 1]
            if [t.text for t in toks[c1 + 1:c1 + 4]] != [".", "take", "("]:
                continue
            c2 = pairs[c1 + 3]
            if [t.text for t in toks[c2 + 1:c2 + 5]] != [".", "collect", "(", ")"]:
                continue
            x = self._render_tokens(h + 2, c1 - 1, subst, fired, unit, ctx)
            y = self._render_tokens(c1 + 4, c2 - 1, subst, fired, unit, ctx)
            s_ = h
            while s_ - 2 >= bo and toks[s_ - 1].text == "::" and toks[s_ - 2].kind == "id":
                s_ -= 2
            replace[s_] = (c2 + 4, "verif_repeat_take_collect_g(%s, %s)" % (x.strip(), y.strip()), "src", None)
            fired("R7:repeat-take-collect")

        # R25 constant-condition branch elimination: `if size_of::<A>() OP size_of::<B>() { X } else { Y }` with A, B resolved to
        # primitive integer types is decided at monomorphisation (rustc drops the dead branch); only the live block is emitted.
        # (needed where the dead branch is outside Verus's subset: the `unsafe { align_to }` arm of the slice readers)
        if getattr(unit, "const_branches", False):
            for h in _find_seq(toks, bo, bc, ["if", "size_of", "::", "<"]):
                g1 = _angle_close(toks, h + 3)
                if g1 != h + 5 or [t.text for t in toks[g1 + 1:g1 + 3]] != ["(", ")"]:
                    continue
                k = g1 + 3
                op = toks[k].text
                if toks[k + 1].text == "=" and op in (">", "<", "=", "!"):
                    op += "="; k += 1
                if op not in (">=", "<=", "==", "!=", ">", "<"):
                    continue
                k += 1
                ta = subst.get(toks[h + 4].text, toks[h + 4].text)
                if ta not in INT_BITS:
                    continue
                if re.match(r"^\d+$", toks[k].text) and toks[k + 1].text == "{":
                    # `size_of::<A>() OP <integer literal> {`
                    a_, b_ = INT_BITS[ta] // 8, int(toks[k].text)
                    g2 = k - 2
                else:
                    if [t.text for t in toks[k:k + 3]] != ["size_of", "::", "<"]:
                        continue
                    g2 = _angle_close(toks, k + 2)
                    if g2 != k + 4 or [t.text for t in toks[g2 + 1:g2 + 3]] != ["(", ")"] or toks[g2 + 3].text != "{":
                        continue
                    tb = subst.get(toks[k + 3].text, toks[k + 3].text)
                    if tb not in INT_BITS:
                        continue
                    a_, b_ = INT_BITS[ta], INT_BITS[tb]
                val = {">=": a_ >= b_, "<=": a_ <= b_, "==": a_ == b_, "!=": a_ != b_, ">": a_ > b_, "<": a_ < b_}[op]
                then_o = g2 + 3
                then_c = pairs[then_o]
                if toks[then_c + 1].text != "else" or toks[then_c + 2].text != "{":
                    continue
                else_o = then_c + 2
                else_c = pairs[else_o]
                if val:
                    replace[h] = (then_o - 1, "", "src", None)             # drop `if COND`
                    replace[then_c + 1] = (else_c, "", "src", None)        # drop `else { .. }`
                else:
                    replace[h] = (else_o - 1, "", "src", None)             # drop `if COND { .. } else`
                fired("R25:const-branch")

        # R26 `for (i, b) in E.iter().enumerate()[.rev()]` / `E.iter().rev().enumerate()` -> an index loop over `0..E.len()`
        # (Verus has no Enumerate/Rev<Enumerate> adapters). std's meaning of these adapters on a slice iterator (T3):
        #   enumerate():        i = 0, 1, .., n-1        b = &E[i]
        #   enumerate().rev():  i = n-1, .., 1, 0        b = &E[i]
        #   rev().enumerate():  i = 0, 1, .., n-1        b = &E[n-1-i]
        # E is evaluated once, before the loop, as in the original (`let verif_enK = E;`).
        if getattr(unit, "enum_loops", False):
            dead = [(a, v[0]) for a, v in replace.items() if v[1] == ""]
            shapes = [("enum_rev", [".", "iter", "(", ")", ".", "enumerate", "(", ")", ".", "rev", "(", ")"]),
                      ("rev_enum", [".", "iter", "(", ")", ".", "rev", "(", ")", ".", "enumerate", "(", ")"]),
                      ("enum", [".", "iter", "(", ")", ".", "enumerate", "(", ")"]),
                      # R26c `E.chars().enumerate()` on a &str: i = 0, 1, .., (number of chars)-1, c = the i-th char; vstd's exec
                      # functions `unicode_len` / `get_char` are the specified way to say that
                      ("chars_enum", [".", "chars", "(", ")", ".", "enumerate", "(", ")"])]
            for ordn, (kw, hb, hc) in enumerate(loops, 1):
                if toks[kw].text != "for" or toks[kw + 1].text != "(" or any(a <= kw <= e for a, e in dead):
                    continue
                pc = pairs[kw + 1]
                if pc != kw + 5 or toks[kw + 3].text != "," or toks[pc + 1].text != "in":
                    continue
                ivar, bvar, kin = toks[kw + 2].text, toks[kw + 4].text, pc + 1
                tail = [t.text for t in toks[kin + 1:hb]]
                shape = None
                for nm, suf in shapes:
                    if len(tail) > len(suf) and tail[-len(suf):] == suf:
                        shape, nsuf = nm, len(suf)
                        break
                if shape is None:
                    continue
                etext = "".join(sg.text for sg in self._render_range(kin + 1, hb - 1 - nsuf, subst, fired, unit, ctx, {}, {}, replace)).strip()
                name = "verif_en%d" % ordn
                replace[kw + 1] = (pc, ivar, "src", None)
                rng = "0..%s.%s()" % (name, "unicode_len" if shape == "chars_enum" else "len")
                replace[kin + 1] = (hb - 1, ("(%s).rev() " % rng) if shape == "enum_rev" else rng + " ", "src", None)
                add_before(kw, "let %s = %s;" % (name, etext), "R26")
                if shape == "chars_enum":
                    elem = "%s.get_char(%s)" % (name, ivar)
                else:
                    elem = "&%s[%s]" % (name, ivar) if shape != "rev_enum" else "&%s[%s.len() - 1 - %s]" % (name, name, ivar)
                ins_after.setdefault(hb, []).insert(0, ("\nlet %s = %s;" % (bvar, elem), "R26"))
                fired("R26:enumerate-loop")

        # R3 size_of
        for h in _find_seq(toks, bo, bc, ["size_of", "::", "<"]):
            gc = _angle_close(toks, h + 2)
            if gc != h + 4 or toks[gc + 1].text != "(" or toks[gc + 2].text != ")":
                continue
            ty = toks[h + 3].text
            ty = subst.get(ty, ty)
            if ty not in INT_BITS:
                continue
            s = h
            while s - 2 >= bo and toks[s - 1].text == "::" and toks[s - 2].kind == "id" and toks[s - 2].text in ("mem", "std", "core"):
                s -= 2
            if toks[s - 1].text == "::" and s - 1 > bo and toks[s - 2].kind != "id":
                s -= 1
            replace[s] = (gc + 2, "%dusize" % (INT_BITS[ty] // 8), "src", None)
            fired("R3:size_of")

        if mut_self:
            add_after(bo, "\nlet mut self_ = self;", "R14")
            self._self_rename = True
        try:
            body_segs = self._render_range(bo, bc, subst, fired, unit, ctx, ins_before, ins_after, replace)
        finally:
            self._self_rename = False
        w.segs.extend(body_segs)
        w.segs.append(Seg("\n", "glue"))
        w.rules = sorted(rules.items())
        w.counts["safety"] = 1
        return w

    # ---------------------------------------------------------------------------------
    def _tail_start(self, bo, bc):
        """token index where the tail expression of the block (bo, bc) starts, or None"""
        toks = self.idx.toks
        pairs = self.idx.pairs
        i = bo + 1
        while i < bc:
            start = i
            t = toks[i]
            if t.kind == "id" and t.text == "let":
                k = i
                while not (toks[k].kind == "p" and toks[k].text == ";"):
                    if toks[k].kind == "p" and toks[k].text in "([{":
                        k = pairs[k]
                    k += 1
                i = k + 1
                continue
            if (t.kind == "id" and t.text in ("if", "while", "for", "loop", "match", "unsafe")) or (t.kind == "p" and t.text == "{"):
                # block-like statement: skip to the end of its last block
                k = i
                while True:
                    while not (toks[k].kind == "p" and toks[k].text == "{"):
                        if toks[k].kind == "p" and toks[k].text in "([":
                            k = pairs[k]
                        k += 1
                    k = pairs[k] + 1
                    if k < bc and toks[k].kind == "id" and toks[k].text == "else":
                        k += 1
                        continue
                    break
                if k >= bc:
                    return start      # the block-like expression IS the tail
                if toks[k].kind == "p" and toks[k].text == ";":
                    k += 1
                elif toks[k].kind == "p" and toks[k].text in ".?":
                    # method call on a block expression: treat as ordinary expression statement
                    while k < bc and not (toks[k].kind == "p" and toks[k].text == ";"):
                        if toks[k].kind == "p" and toks[k].text in "([{":
                            k = pairs[k]
                        k += 1
                    if k >= bc:
                        return start
                    k += 1
                i = k
                continue
            k = i
            while k < bc and not (toks[k].kind == "p" and toks[k].text == ";"):
                if toks[k].kind == "p" and toks[k].text in "([{":
                    k = pairs[k]
                k += 1
            if k >= bc:
                return start
            i = k + 1
        return None

    def _tok_out(self, i, subst, fired, unit, ctx):
        """emitted text for token i (type-parameter substitution, R2, R5, R12) and how many
        following tokens were consumed"""
        toks = self.idx.toks
        t = toks[i]
        if t.kind != "id":
            return t.text, 0
        if t.text == "self" and getattr(self, "_self_rename", False):
            return "self_", 0
        if unit is not None and getattr(unit, "idents", None) and t.text in unit.idents and not (toks[i - 1].kind == "p" and toks[i - 1].text in (".", "::")) and toks[i + 1].text != "::":
            fired("R23:ident-rename")
            return unit.idents[t.text], 0
        if unit is not None and getattr(unit, "idents", None) and (t.text + "::") in unit.idents and toks[i + 1].text == "::" and not (toks[i - 1].kind == "p" and toks[i - 1].text in (".", "::")):
            # R32: the head of a path (`std::fmt::Formatter` -> `vstdm::fmt::Formatter`, the mirror module of spec/prelude/fmt.rs)
            fired("R32:path-head")
            return unit.idents[t.text + "::"], 0
        if t.text == "Self" and unit is not None and getattr(unit, "assoc", None) and toks[i + 1].text == "::" and toks[i + 2].text in unit.assoc:
            fired("R21:assoc-type")
            return expand(unit.assoc[toks[i + 2].text], ctx), 2
        prev = toks[i - 1]
        nxt = toks[i + 1]
        if t.text in subst and not (prev.kind == "p" and prev.text in (".", "::")):
            val = subst[t.text]
            fired("R1:instantiate")
            if nxt.text == "::" and toks[i + 2].text in CONST_NAMES and val in INT_BITS:
                fired("R2:const-resolution")
                return "<%s as Constants>" % val, 0
            return val, 0
        if t.text in IA_METHODS:
            # R5: get_int::<T> -> get_int_T
            if nxt.text == "::" and toks[i + 2].text == "<":
                gc = _angle_close(toks, i + 2)
                if gc == i + 4:
                    ty = toks[i + 3].text
                    ty = subst.get(ty, ty)
                    fired("R5:iarray-mono")
                    return "%s_%s" % (t.text, ty), 4
            return t.text, 0
        if t.text in ("IArray", "IArrayMut") and nxt.text == "::" and toks[i + 2].text in IA_METHODS:
            # IArray::get_int::<T>(x, ..) -> IA_get_int_T::get_int_T(x, ..)
            m = toks[i + 2].text
            if toks[i + 3].text == "::" and toks[i + 4].text == "<" and _angle_close(toks, i + 4) == i + 6:
                ty = toks[i + 5].text
                ty = subst.get(ty, ty)
                fired("R5:iarray-mono")
                return "IA_%s_%s::%s_%s" % (m, ty, m, ty), 6
            return t.text, 0
        if t.text in CONV_RENAMES and prev.kind == "p" and prev.text in (".", "::") and nxt.text in ("(", "::"):
            fired("R12:conv-rename")
            return CONV_RENAMES[t.text], 0
        return t.text, 0

    def _render_tokens(self, a, b, subst, fired, unit, ctx):
        segs = self._render_range(a, b, subst, fired, unit, ctx, {}, {}, {})
        return "".join(s.text for s in segs)

    def _render_range(self, a, b, subst, fired, unit, ctx, ins_before, ins_after, replace):
        toks = self.idx.toks
        src = self.idx.src
        segs = []
        cur = []

        def flush_src():
            if cur:
                segs.append(Seg("".join(cur), "src"))
                del cur[:]

        i = a
        last_end = toks[a].start
        while i <= b:
            t = toks[i]
            ws = src[last_end:t.start]
            # drop comments from inter-token text (doc comments inside bodies are rare)
            ws = re.sub(r"//[^\n]*", "", ws)
            cur.append(ws)
            for (text, label) in ins_before.get(i, []):
                flush_src()
                segs.append(Seg(text if text.endswith("\n") else text + "\n", "woven", label))
            if i in replace:
                end, text, origin, label = replace[i]
                cur.append(text)
                for k in range(i, end + 1):
                    for (text2, label2) in ins_after.get(k, []):
                        flush_src()
                        segs.append(Seg(text2 if text2.endswith("\n") else text2 + "\n", "woven", label2))
                last_end = toks[end].end
                i = end + 1
                continue
            text, consumed = self._tok_out(i, subst, fired, unit, ctx)
            cur.append(text)
            last = i + consumed
            for (text2, label2) in ins_after.get(i, []):
                flush_src()
                segs.append(Seg(text2 if text2.endswith("\n") else text2 + "\n", "woven", label2))
            last_end = toks[last].end
            i = last + 1
        flush_src()
        return segs

    # ---------------------------------------------------------------------------------
    def weave_decl(self, unit, ctx):
        """struct / enum declaration: bounds on type parameters dropped, fields widened to pub (R9)."""
        mod, kind_name, _ = unit.source
        kind, name = kind_name.split()
        items = [it for it in self.idx.items if it.mod == mod and it.kind == kind and it.name == name]
        if len(items) != 1:
            raise LostAnchor("unit %s: declaration %s %s::%s matches %d items" % (unit.name, kind, mod, name, len(items)))
        it = items[0]
        toks = self.idx.toks
        pairs = self.idx.pairs
        w = Woven()
        text = self.idx.tok_text(it.start, it.end)
        w.src_hash = hashlib.sha256(text.encode()).hexdigest()[:16]
        if kind == "type":
            # type alias: emitted verbatim, visibility widened to pub (R9)
            i = it.start
            while toks[i].text != "type":
                i += 1
            w.segs.append(Seg("pub %s;\n" % self.idx.tok_text(i, it.end - 1 if toks[it.end].text == ";" else it.end), "src"))
            w.rules = [("R9:pub-widen", 1)]
            return w
        # find generics and body
        i = it.start
        while toks[i].text != kind:
            i += 1
        out = []
        j = i + 2
        gen = ""
        if toks[j].text == "<":
            gc = _angle_close(toks, j)
            # drop bounds: keep `const N : usize`, lifetimes, and bare names
            params = []
            depth = 0
            start = j + 1
            for k in range(j + 1, gc + 1):
                t = toks[k]
                if t.kind == "p" and t.text in "<([":
                    depth += 1
                elif t.kind == "p" and t.text in ")]":
                    depth -= 1
                elif t.kind == "p" and t.text == ">":
                    if k == gc:
                        params.append((start, k - 1))
                        break
                    depth -= 1
                elif t.kind == "p" and t.text == "," and depth == 0:
                    params.append((start, k - 1))
                    start = k + 1
            ps = []
            for (a, b) in params:
                if toks[a].text == "const" or toks[a].kind == "life":
                    ps.append(self.idx.tok_text(a, b))
                else:
                    ps.append(toks[a].text)
            gen = "<" + ", ".join(ps) + ">"
            j = gc + 1
        body_open = j
        while toks[body_open].text not in ("{", "(", ";"):
            body_open += 1
        if toks[body_open].text == ";":
            body = ";"
        else:
            bc = pairs[body_open]
            parts = []
            k = body_open + 1
            last_end = toks[body_open].end
            depth = 0
            at_field_start = True
            while k < bc:
                t = toks[k]
                ws = re.sub(r"//[^\n]*", "", self.idx.src[last_end:t.start])
                parts.append(ws)
                if t.kind == "p" and t.text == "#":
                    # skip attributes such as #[doc(hidden)]
                    e = pairs[k + 1]
                    last_end = toks[e].end
                    k = e + 1
                    continue
                if kind == "struct" and at_field_start and depth == 0 and t.kind == "id":
                    if t.text != "pub":
                        parts.append("pub ")
                    at_field_start = False
                if t.kind == "p" and t.text in "([{<":
                    depth += 1
                elif t.kind == "p" and t.text in ")]}>":
                    depth -= 1
                elif t.kind == "p" and t.text == "," and depth == 0:
                    at_field_start = True
                parts.append(t.text)
                last_end = t.end
                k += 1
            parts.append(self.idx.src[last_end:toks[bc].start])
            body = toks[body_open].text + "".join(parts) + toks[bc].text
            if toks[body_open].text == "(":
                body += ";"
        attrs = expand(unit.attrs, ctx)
        w.segs.append(Seg("%s\npub %s %s%s %s\n" % (attrs, kind, name, gen, body), "src"))
        w.rules = [("R9:pub-widen", 1), ("R1:drop-bounds", 1)]
        return w

    def impl_assoc_types(self, unit, ctx):
        """`type X = ...;` members of the source impl block of a fn unit (emitted once per impl block)"""
        mod, header, name = unit.source
        hn = norm(tokenize(expand(header, ctx)))
        items = [it for it in self.idx.items if it.mod == mod and it.kind in ("impl",) and it.header == hn]
        if len(items) != 1:
            return ""
        it = items[0]
        subst = {k: expand(v, ctx) for k, v in unit.subst.items()}
        out = []
        for (kw, nm, a, b) in it.consts:
            if kw == "type":
                out.append(self._render_tokens(a, b, subst, lambda *x: None, unit, ctx) + "\n")
        return "".join(out)

    def weave_consts(self, unit, ctx):
        """all associated consts of one inherent impl block"""
        mod, header, _ = unit.source
        hn = norm(tokenize(expand(header, ctx)))
        items = [it for it in self.idx.items if it.mod == mod and it.kind == "impl" and it.header == hn]
        if len(items) != 1:
            raise LostAnchor("unit %s: impl %r matches %d items" % (unit.name, hn, len(items)))
        it = items[0]
        subst = {k: expand(v, ctx) for k, v in unit.subst.items()}
        rules = {}

        def fired(r, n=1):
            rules[r] = rules.get(r, 0) + n
        w = Woven()
        toks = self.idx.toks
        h = hashlib.sha256()
        for (kw, name, a, b) in it.consts:
            if kw != "const":
                continue
            h.update(self.idx.tok_text(a, b).encode())
            replace = {}
            for hh in _find_seq(toks, a, b, ["size_of", "::", "<"]):
                gc = _angle_close(toks, hh + 2)
                ty = toks[hh + 3].text
                ty = subst.get(ty, ty)
                if gc == hh + 4 and ty in INT_BITS:
                    replace[hh] = (gc + 2, "%dusize" % (INT_BITS[ty] // 8), "src", None)
                    fired("R3:size_of")
            if toks[a].text != "pub" and " for " not in hn:
                w.segs.append(Seg("pub ", "glue"))
            w.segs.extend(self._render_range(a, b, subst, fired, unit, ctx, {}, {}, replace))
            w.segs.append(Seg("\n", "glue"))
        w.src_hash = h.hexdigest()[:16]
        w.rules = sorted(rules.items())
        return w
