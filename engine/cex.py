"""Counterexample search (Kani on the real crate) and replay. See DESIGN.md section 6."""
import json
import os
import sys


def search(prop, unit, violations, scratch):
    """-> dict describing a failing input replayed on the real code, or None"""
    try:
        import kanirun
    except ImportError:
        return None
    return kanirun.search(prop, unit, violations, scratch)


def replay(path):
    with open(path) as f:
        r = json.load(f)
    print("replay file for property %s unit %s" % (r.get("property"), r.get("unit")))
    for o in r.get("failed_obligations", []):
        print("failed obligation:", o["obligation"], "at", o["where"])
        print(o.get("verifier_output") or o.get("verifier_message"))
    cexd = r.get("counterexample")
    if not cexd:
        print("no failing input recorded (no-failing-input-found)")
        return 1
    try:
        import kanirun
        return kanirun.replay(cexd)
    except ImportError:
        print(json.dumps(cexd, indent=1))
        return 1
