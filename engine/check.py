"""bin/check: decide one property on /repo's current working tree (see DESIGN.md 4.3, 11)."""
import concurrent.futures
import hashlib
import json
import os
import re
import shutil
import sys
import tempfile
import time
import traceback

HERE = os.path.dirname(os.path.abspath(__file__))
ROOT = os.path.dirname(HERE)
# developer override (seeded-change campaigns run on a scratch clone without touching the committed evidence)
EVDIR = os.environ.get("VERIF_EVIDENCE_DIR") or os.path.join(ROOT, "evidence")
sys.path.insert(0, HERE)
sys.path.insert(0, os.path.join(ROOT, "spec"))

import expandsrc
import index
import rstok
import units as unitsmod
import weave
import assemble
import verus


def log(*a):
    print(*a, file=sys.stderr, flush=True)


class Job:
    def __init__(self, group, ctx, profile, mode):
        self.group = group
        self.ctx = ctx
        self.profile = profile
        self.mode = mode
        self.asm = None
        self.path = None
        self.result = None
        self.profiles = [profile]
        self.error = None      # LostAnchor etc.

    @property
    def label(self):
        probe = getattr(self, "probe", None)
        return "%s@%s/%s%s%s" % (self.group["name"], ",".join("%s=%s" % kv for kv in sorted(self.ctx.items())),
                               "+".join(self.profiles), "" if self.mode == "verify" else ":" + self.mode,
                               ("[%s]" % probe[1]) if probe else "")


def body_hash(text):
    # ignore the header comment (it names the profile)
    return hashlib.sha256("\n".join(text.split("\n")[2:]).encode()).hexdigest()


def known_findings():
    out = {"finding": [], "fixed": []}
    p = os.path.join(ROOT, "KNOWN_FINDINGS")
    if os.path.exists(p):
        for line in open(p):
            line = line.strip()
            if line.startswith("finding:"):
                kv = dict(re.findall(r"(\w+)=(\S+)", line))
                kv["_line"] = line
                out["finding"].append(kv)
            elif line.startswith("fixed:"):
                out["fixed"].append(line)
    return out


def run_check(prop, tier, seed):
    import plan
    t0 = time.time()
    spec = plan.PROPS.get(prop)
    if spec is None:
        log("property %s has no check" % prop)
        return 2
    jobs_spec = spec[tier] if tier in spec else spec.get("quick", [])
    scratch = tempfile.mkdtemp(prefix="bva-verif-")
    status = 0
    undecided = []
    violations = []
    known = []
    all_units = unitsmod.load_all(os.path.join(ROOT, "spec", "units"))
    evidence = {
        "property_id": prop, "tier": tier, "seed": seed, "level": (getattr(plan, "MANIFEST_TEXT", {}).get(prop, {}).get("category") or spec.get("level", "proof" if jobs_spec else "exploration")),
        "coverage": {}, "assumptions": [], "wall_s": 0.0, "violations": 0,
    }
    try:
        idxs = {}
        for profile in ("dev", "release"):
            src = expandsrc.expand(profile, scratch)
            idxs[profile] = index.Index(open(src).read())
        weavers = {p: weave.Weaver(idxs[p], p) for p in idxs}

        # ---- emit
        jobs = []
        modes = ["verify"] + (["vacuity"] if spec.get("vacuity", True) else [])
        for (gname, ctx) in jobs_spec:
            g = assemble.resolve(plan.GROUPS[gname], ctx)
            variants = [("verify", None)]
            if spec.get("vacuity", True):
                inh, tr = assemble.vacuity_targets(all_units, g)
                if inh:
                    variants.append(("vacuity", None))
                for entry in tr:
                    variants.append(("vacuity", entry))
            for (mode, probe) in variants:
                per_profile = []
                for profile in ("dev", "release"):
                    j = Job(g, ctx, profile, mode)
                    j.probe = probe
                    try:
                        j.asm = assemble.assemble(weavers[profile], all_units, g, ctx, os.path.join(ROOT, "spec", "prelude"),
                                                  mode=mode, features=g.get("features", ""), probe=probe)
                    except (weave.LostAnchor, unitsmod.UnitError, rstok.LexError) as e:
                        j.error = "%s: %s" % (type(e).__name__, e)
                    per_profile.append(j)
                a, b = per_profile
                if a.error is None and b.error is None and body_hash(a.asm.text) == body_hash(b.asm.text):
                    a.profiles = ["dev", "release"]
                    jobs.append(a)
                else:
                    jobs.extend(per_profile)
        for n, j in enumerate(jobs):
            if j.error:
                undecided.append("%s: %s" % (j.label, j.error))
                continue
            j.path = os.path.join(scratch, "job%03d_%s_%s.rs" % (n, j.group["name"], j.mode))
            with open(j.path, "w") as f:
                f.write(j.asm.text)

        # ---- verify (parallel)
        runnable = [j for j in jobs if j.path]
        workers = int(os.environ.get("VERIF_JOBS", "14"))

        def work(j):
            # the SMT seed is NOT varied with VERIF_SEED: a proof either exists or not; the seed drives the random search of the
            # second engine only. A resource-limit failure is retried once with a 4x larger limit before it counts as undecided.
            j.result = verus.run_verus(j.path)
            if j.mode != "vacuity" and any(d.kind == "resource" for d in j.result.diags):
                r2 = verus.run_verus(j.path, rlimit=120)
                r2.retried = True
                j.result = r2
            return j
        with concurrent.futures.ThreadPoolExecutor(max_workers=workers) as ex:
            list(ex.map(work, runnable))

        # ---- classify
        fn_under_contract = {}
        obligations = 0
        discharged = 0
        solver_ms = 0
        rlimit_max = 0
        samples = []
        trusted = set()
        rules_fired = {}
        canary_ok = 0
        vac_ok = 0
        vac_total = 0
        for j in runnable:
            r = j.result
            solver_ms += r.smt_ms
            rlimit_max = max(rlimit_max, r.rlimit_max)
            if r.compile_error and not any(d.definite for d in r.diags):
                msgs = "; ".join(d.message.split("\n")[0][:160] for d in r.diags[:3]) or r.compile_error
                undecided.append("%s: emitted file rejected by rustc/verus front end (%s)" % (j.label, msgs))
                continue
            failed_units = {}
            canary_hit = False
            for d in r.diags:
                c, origin, label = j.asm.locate(d.line)
                if c is None:
                    # a trait-level postcondition (mirror traits VFrom/VTryFrom/IA_*: `ensures Self::..._post(value, r)` lives in the prelude)
                    # is reported AT the trait declaration, with the implementing function as a secondary span: attribute it to that unit
                    for rl in getattr(d, "related_lines", []):
                        c2, origin2, label2 = j.asm.locate(rl)
                        if c2 is not None:
                            c, origin, label = c2, origin2, "trait-level contract (declared at line %d)" % d.line
                            break
                if c is None:
                    if j.asm.canary_line and abs(d.line - j.asm.canary_line) <= 1:
                        canary_hit = True
                        continue
                    # prelude lemma failed or front-end message
                    if j.mode == "vacuity" and (d.definite or d.kind == "resource"):
                        # the prelude is verified in the verify-mode file of the same job; a vacuity file only answers
                        # "can `false` be proved from the unit's preconditions and its callees' contracts"
                        log("note: %s: prelude diagnostic in a vacuity file ignored (line %d: %s)" % (j.label, d.line, d.message.split("\n")[0][:80]))
                        continue
                    if d.definite or d.kind == "resource":
                        undecided.append("%s: prelude/lemma obligation not discharged at line %d: %s" % (j.label, d.line, d.message.split("\n")[0][:120]))
                    else:
                        undecided.append("%s: %s (line %d)" % (j.label, d.message.split("\n")[0][:160], d.line))
                    continue
                failed_units.setdefault(c.unit, []).append((d, origin, label, c))
            if j.mode == "verify":
                if not canary_hit:
                    undecided.append("%s: canary accepted - verifier run is not trustworthy" % j.label)
                    continue
                canary_ok += 1
            for c in j.asm.chunks:
                u = all_units[c.unit]
                if c.mode in ("stub", "decl") or u.kind != "fn":
                    if u.trusted:
                        trusted.add("unit %s: %s" % (c.unit, u.trusted))
                    continue
                if u.trusted:
                    trusted.add("unit %s: %s" % (c.unit, u.trusted))
                    continue
                diags = failed_units.get(c.unit, [])
                if j.mode == "vacuity":
                    # the copy with `ensures false` MUST fail; if it verifies the contract is vacuous
                    vac_total += 1
                    if any(d.definite for (d, _, _, _) in diags):
                        vac_ok += 1
                    elif any(d.kind == "resource" for (d, _, _, _) in diags):
                        vac_ok += 1   # could not prove false within the resource limit: not vacuous as far as we can tell
                    elif diags:
                        undecided.append("%s: vacuity probe of %s: %s" % (j.label, c.unit, diags[0][0].message.split("\n")[0][:120]))
                    else:
                        undecided.append("%s: unit %s verifies `ensures false`: contradictory precondition or no returning path" % (j.label, c.unit))
                    continue
                n_obl = sum(c.counts.get(k, 0) for k in ("ensures", "loop_clauses", "asserts", "panic_sites", "safety"))
                obligations += n_obl
                key = (c.unit, j.label)
                ent = fn_under_contract.setdefault(c.unit, {
                    "unit": c.unit, "source": " | ".join(all_units[c.unit].source), "instances": [], "props": all_units[c.unit].props})
                inst = {"job": j.label, "src_sha": c.src_hash, "rules": ["%s x%d" % kv for kv in c.rules], "loops": c.loops,
                        "obligations": n_obl, "ok": not diags}
                ent["instances"].append(inst)
                for rr, n in c.rules:
                    rules_fired[rr] = rules_fired.get(rr, 0) + n
                if not diags:
                    discharged += n_obl
                    if len(samples) < 6 and c.counts.get("ensures"):
                        parts = weave.parse_sig_section(unitsmod.expand(u.sections.get("sig", ""), dict(j.ctx)))
                        samples.append({"obligation": "%s@%s:ensures" % (c.unit, j.label),
                                        "clause": " ".join(parts.get("ensures", "").split())[:400], "backend": "verus/z3", "status": "discharged"})
                    continue
                relevant = prop in u.props
                for (d, origin, label, _) in diags:
                    where = "%s line %d (%s%s)" % (c.unit, d.line, origin, (" " + label) if label else "")
                    if d.definite:
                        item = {"unit": c.unit, "job": j.label, "kind": d.kind, "where": where, "message": d.message,
                                "rendered": d.rendered, "relevant": relevant, "ctx": dict(j.ctx), "profiles": j.profiles}
                        violations.append(item)
                    else:
                        undecided.append("%s: %s: %s" % (j.label, where, d.message.split("\n")[0][:160]))

        # ---- verdicts
        kf = known_findings()
        viol_rel = []
        for v in violations:
            if not v["relevant"]:
                log("NOTE: unit %s (not tagged %s) has a failing obligation: %s [%s]" % (v["unit"], prop, v["message"].split("\n")[0], v["job"]))
                continue
            matched = None
            for f in kf["finding"]:
                if f.get("property") == prop and f.get("unit") == v["unit"] and f.get("kind", v["kind"]) == v["kind"]:
                    matched = f
            if matched:
                known.append((matched, v))
            else:
                viol_rel.append(v)

        printed = set()
        for (f, v) in known:
            if f["_line"] not in printed:
                print("KNOWN-FINDING: property=%s %s" % (prop, f["_line"].split(" ", 2)[-1]))
                printed.add(f["_line"])
        # ---- second engine, always on: the executable form of the contracts on the REAL crate
        #      (native random search every run; Kani bounded-exhaustive runs in the thorough tier and as arbiter)
        import kanirun
        found = None
        dyn = {"harnesses": [], "random_runs_per_harness": 0, "nonvacuous_runs": 0, "kani_harnesses": [], "kani_ok": 0, "kani_seconds": 0.0, "failures": []}
        try:
            hnames = kanirun.harnesses_for(prop)
            if hnames:
                exe = kanirun.build_replay(scratch, "release")
                runs = int(os.environ.get("VERIF_FUZZ_RUNS", "30000" if tier == "quick" else "300000"))
                failed, stats = kanirun.fuzz(exe, hnames, runs, seed or 1)
                dyn["harnesses"] = hnames
                dyn["random_runs_per_harness"] = runs
                dyn["nonvacuous_runs"] = sum(stats.values())
                dyn["nonvacuous_by_harness"] = stats
                if spec.get("debug_profile_too"):
                    exe_d = kanirun.build_replay(scratch, "dev")
                    failed_d, stats_d = kanirun.fuzz(exe_d, [h for h in hnames if h.startswith(tuple(spec["debug_profile_too"]))], max(2000, runs // 10), seed or 1)
                    dyn["nonvacuous_runs_debug_profile"] = sum(stats_d.values())
                    for k, v in failed_d.items():
                        failed.setdefault(k, v)
                        exe = exe_d if k not in stats else exe
                knames = [h for h in hnames if kanirun.kani_feasible(h)]
                if knames and not failed and (tier == "thorough" or viol_rel or undecided) and not os.environ.get("VERIF_NO_KANI"):
                    # bounded-exhaustive arbiter / thorough-tier stand-in; budgeted so that a quick check stays quick
                    res, klog, secs = kanirun.run_kani(knames, scratch, timeout=(3000 if tier == "thorough" else 420))
                    dyn["kani_harnesses"] = knames
                    dyn["kani_seconds"] = round(secs, 1)
                    dyn["kani_ok"] = sum(1 for r in res.values() if r["status"] == "ok")
                    for n_, r in res.items():
                        if r["status"] == "failed" and r["bytes"]:
                            failed[n_] = r["bytes"]
                        elif r["status"] != "ok":
                            dyn.setdefault("kani_undecided", []).append(n_)
                for n_, bs in sorted(failed.items()):
                    d = kanirun.describe(exe, n_, bs)
                    if not d["replayed_on_real_code"] and spec.get("debug_profile_too"):
                        d = kanirun.describe(kanirun.build_replay(scratch, "dev"), n_, bs)
                    if d["replayed_on_real_code"]:
                        dyn["failures"].append(d)
                if dyn["failures"]:
                    found = dyn["failures"][0]
        except Exception as e:   # the second engine must never mask the verifier's verdict
            log("dynamic stage failed: %s" % e)
            undecided.append("dynamic stage (native build / random search / kani) failed: %s" % str(e).split("\n")[0][:200])
        rdir = os.path.join(EVDIR, "replay")
        if viol_rel:
            status = 1
            os.makedirs(rdir, exist_ok=True)
            by_unit = {}
            for v in viol_rel:
                by_unit.setdefault(v["unit"], []).append(v)
            for uname, vs in sorted(by_unit.items()):
                rpath = os.path.join(rdir, "%s-%s.json" % (prop, uname.replace("/", "_")))
                replay = {"property": prop, "unit": uname, "source": " | ".join(all_units[uname].source),
                          "failed_obligations": [{"obligation": "%s@%s:%s" % (uname, v["job"], v["kind"]), "where": v["where"],
                                                  "verifier_message": v["message"], "verifier_output": v["rendered"]} for v in vs],
                          "counterexample": found}
                with open(rpath, "w") as f:
                    json.dump(replay, f, indent=1)
                suffix = "" if found else " no-failing-input-found"
                print("VIOLATION property=%s replay=%s%s" % (prop, rpath, suffix))
                for v in vs[:4]:
                    log("  failed obligation %s@%s:%s at %s: %s" % (uname, v["job"], v["kind"], v["where"], v["message"].split("\n")[0]))
        elif found:
            # the verifier could not decide (lost anchor, unsupported construct, resource limit) but the
            # executable form of the contract fails on the real code for a concrete input
            status = 1
            os.makedirs(rdir, exist_ok=True)
            rpath = os.path.join(rdir, "%s-%s.json" % (prop, found["harness"]))
            with open(rpath, "w") as f:
                json.dump({"property": prop, "unit": None, "failed_obligations": [
                    {"obligation": "executable contract %s (kani/src: written from the property statement, run on the real crate)" % found["harness"],
                     "where": str(found.get("failed_assertion")),
                     "verifier_message": "; ".join(undecided[:3]), "verifier_output": ""}], "counterexample": found,
                    "all_failing_harnesses": [d["harness"] for d in dyn["failures"]]}, f, indent=1)
            print("VIOLATION property=%s replay=%s" % (prop, rpath))
        elif undecided:
            status = 2
        # one line per distinct reason (the job label prefix is dropped for grouping), at most 15 lines
        seen = {}
        for u in undecided:
            key = u.split(": ", 1)[-1]
            seen.setdefault(key, []).append(u)
        for n, (key, us) in enumerate(seen.items()):
            if n >= 15:
                print("UNDECIDED property=%s reason=... %d more distinct reasons" % (prop, len(seen) - 15))
                break
            print("UNDECIDED property=%s reason=%s%s" % (prop, us[0], (" (+%d more instances)" % (len(us) - 1)) if len(us) > 1 else ""))

        # ---- evidence
        import trustscan
        tb = sorted(trusted) + trustscan.scan([j.asm.text for j in runnable if j.asm])
        std_discharge = None
        if tier == "thorough" and status != 2:
            # DESIGN 6.4: the finite-domain assumed std contracts are proved by CBMC over their full domain; only re-labels the assumption
            try:
                import stdcheck
                tb, std_discharge = stdcheck.discharge(tb, scratch)
            except Exception as e:
                log("std-contract discharge stage failed (ignored): %s" % e)
        audit = {}
        if hasattr(plan, "audit"):
            try:
                audit = plan.audit(prop, idxs["dev"], all_units)
            except Exception as e:
                audit = {"error": str(e)}
        cov = {
            "obligations": obligations,
            "discharged": discharged,
            "checker_cmd": "verus <generated file> --output-json --time --multiple-errors 8 -- --error-format=json   (one file per group x instantiation x profile; files generated from /repo by /verif/engine)",
            "trusted_base": tb,
            "functions_under_contract": sorted(fn_under_contract.values(), key=lambda e: e["unit"]),
            "n_functions_under_contract": len(fn_under_contract),
            "verus_files": len(runnable),
            "verus_functions_verified": sum(j.result.verified for j in runnable if j.mode == "verify"),
            "backend": "verus 0.2026.09.13 / z3 (bit-vector lemmas: by(bit_vector); arithmetic lemmas: by(nonlinear_arith))",
            "solver_time_ms": solver_ms,
            "rlimit_max": rlimit_max,
            "canary_rejected": canary_ok,
            "vacuity_probes": vac_total,
            "vacuity_probes_rejected_as_expected": vac_ok,
            "rewrite_rules_fired": rules_fired,
            "instantiations": sorted(set(j.label for j in runnable)),
            "profiles": ["dev", "release"],
            "samples": samples,
            "undecided": undecided,
            "known_findings": [f["_line"] for (f, v) in known],
            "fixed_findings": kf["fixed"],
        }
        cov.update({
            "evaluations": dyn["random_runs_per_harness"] * len(dyn["harnesses"]),
            "distinct_nontrivial": dyn["nonvacuous_runs"],
            "rule": ("second engine (not counted as proof): each executable contract harness of kani/src (written from the property statement, "
                     "run natively against /repo) is fed `random_runs_per_harness` pseudo-random 96-byte inputs (seeded by VERIF_SEED, biased to 0x00/0xff/boundary bytes); "
                     "an input is non-trivial when it satisfies every assumption of the harness (well-formed operands, index ranges) so that the contract is actually evaluated; "
                     "inputs are random so distinctness is not measured exactly; the count is the number of non-vacuous evaluations"),
            "executable_contract_harnesses": dyn["harnesses"],
            "random_runs_per_harness": dyn["random_runs_per_harness"],
            "bounded_units": {"engine": "kani 0.68 / cbmc 6.11 on the real crate", "harnesses": dyn["kani_harnesses"], "verified": dyn["kani_ok"],
                              "seconds": dyn["kani_seconds"], "undecided": dyn.get("kani_undecided", []),
                              "bounds": "all lengths and all values of Bvf<u8,2>, Bvf<u8,3>, Bvf<u16,2> operands (u32 reference model), loops unwound 34 times with unwinding assertions; run in the thorough tier and whenever the verifier reports a failure or cannot decide"},
            "dynamic_failures": [d["harness"] for d in dyn["failures"]],
        })
        if not samples and dyn["harnesses"]:
            samples.append({"harness": dyn["harnesses"][0], "kind": "executable contract, random inputs", "runs": dyn["random_runs_per_harness"]})
            cov["samples"] = samples
        if std_discharge is not None:
            cov["assumed_std_contracts_discharged"] = std_discharge
        cov.update(audit)
        if hasattr(plan, "extra_evidence"):
            cov.update(plan.extra_evidence(prop, tier))
        evidence["coverage"] = cov
        evidence["assumptions"] = tb + list(spec.get("assumptions", []))
        evidence["violations"] = len(viol_rel) + (1 if (found and not viol_rel) else 0)
        if obligations == 0:
            evidence["level"] = "exploration"
    except expandsrc.ExpandError as e:
        print("UNDECIDED property=%s reason=%s" % (prop, str(e).split("\n")[0]))
        log(str(e))
        status = 2
    except Exception as e:
        traceback.print_exc()
        print("UNDECIDED property=%s reason=engine error %s" % (prop, e))
        status = 2
    finally:
        if os.environ.get("VERIF_KEEP"):
            log("scratch kept: " + scratch)
        else:
            shutil.rmtree(scratch, ignore_errors=True)
    evidence["wall_s"] = round(time.time() - t0, 2)
    os.makedirs(EVDIR, exist_ok=True)
    if status != 2 or evidence["coverage"]:
        with open(os.path.join(EVDIR, "%s.json" % prop), "w") as f:
            json.dump(evidence, f, indent=1)
    log("%s %s: status=%d obligations=%s discharged=%s wall=%.1fs" % (prop, tier, status,
        evidence["coverage"].get("obligations"), evidence["coverage"].get("discharged"), evidence["wall_s"]))
    return status


def main(argv):
    if len(argv) >= 2 and argv[0] == "--replay":
        import cex
        return cex.replay(argv[1])
    prop = argv[0]
    tier = os.environ.get("VERIF_TIER", "quick")
    seed = int(os.environ.get("VERIF_SEED", "0") or 0)
    i = 1
    while i < len(argv):
        if argv[i] == "--tier":
            tier = argv[i + 1]
            i += 2
        elif argv[i] == "--seed":
            seed = int(argv[i + 1])
            i += 2
        else:
            i += 1
    return run_check(prop, tier, seed)


if __name__ == "__main__":
    sys.exit(main(sys.argv[1:]))
