"""DESIGN 6.4: discharge the finite-domain assumed std contracts (T1) with full-domain, loop-free Kani harnesses
(kani/src/std_assumptions.rs). Thorough tier only. The result only re-labels the assumption in the evidence; it never changes a verdict."""
import os
import re
import subprocess
import time

import kanirun

_PAT = re.compile(r"^T1 assumed std contract: (u8|u16|u32|u64|u128|usize)::(overflowing_add|overflowing_sub|checked_shl|checked_shr)$")


def harness_of(entry):
    m = _PAT.match(entry)
    if m:
        return "t1_%s_%s" % (m.group(2), m.group(1))
    if entry.startswith("T1 assumed std contract: Ordering::reverse"):
        return "t1_ordering_reverse"
    return None


def discharge(tb, scratch, timeout=900):
    """tb: list of trusted-base strings -> (new list, summary dict)"""
    want = {}
    for e in tb:
        h = harness_of(e)
        if h:
            want[e] = h
    summary = {"engine": "kani 0.68 / cbmc 6.11, loop-free harnesses over the full input domain (kani/src/std_assumptions.rs)",
               "harnesses": sorted(set(want.values())), "verified": [], "not_verified": [], "seconds": 0.0}
    if not want or os.environ.get("VERIF_NO_KANI"):
        return tb, summary
    crate = kanirun._copy_crate(scratch)
    env = dict(os.environ, CARGO_NET_OFFLINE="true", CARGO_TARGET_DIR=os.path.join(scratch, "kani_target"))
    cmd = ["cargo", "kani", "--output-format", "terse", "--exact", "-j", "8"]
    for h in summary["harnesses"]:
        cmd += ["--harness", "std_assumptions::" + h]
    t0 = time.time()
    try:
        out = subprocess.run(cmd, cwd=crate, env=env, stdout=subprocess.PIPE, stderr=subprocess.STDOUT, timeout=timeout).stdout.decode("utf-8", "replace")
    except subprocess.TimeoutExpired as e:
        out = (e.stdout or b"").decode("utf-8", "replace") + "\nTIMEOUT"
    except Exception as e:      # never let this stage disturb a verdict
        out = "ERROR %s" % e
    summary["seconds"] = round(time.time() - t0, 1)
    failed = set(re.findall(r"Verification failed for - std_assumptions::(\w+)", out))
    m = re.search(r"Complete - (\d+) successfully verified harnesses, (\d+) failures, (\d+) total", out)
    ok = set()
    if m and int(m.group(3)) == len(summary["harnesses"]):
        ok = set(summary["harnesses"]) - failed
    summary["verified"] = sorted(ok)
    summary["not_verified"] = sorted(set(summary["harnesses"]) - ok)
    new = []
    for e in tb:
        h = want.get(e)
        if h and h in ok:
            new.append(e.replace("T1 assumed std contract:", "T1 std contract assumed in Verus, DISCHARGED by CBMC over the full domain (harness %s):" % h))
        else:
            new.append(e)
    return new, summary
