//! name -> harness, for native replay and random search; the `kani` list also becomes Kani proof harnesses
//! (small Bvf types only: every value of every length is explored, loops unwound to the type's bounds).
use crate::*;

macro_rules! registry { (kani: [$($k:ident),* $(,)?], native: [$($n:ident),* $(,)?]) => {
    pub const KANI_HARNESSES: &[&str] = &[$(stringify!($k)),*];
    pub const HARNESSES: &[&str] = &[$(stringify!($k)),*, $(stringify!($n)),*];
    pub fn run_named(name: &str, s: &mut VecSrc) -> bool {
        match name { $(stringify!($k) => { $k(s); true })* $(stringify!($n) => { $n(s); true })* _ => false }
    }
    #[cfg(kani)]
    pub mod proofs {
        use super::*;
        $( #[kani::proof] #[kani::unwind(34)] fn $k() { super::$k(&mut KaniSrc) } )*
    }
}}
registry!(
    kani: [and__f83_f81, or__f83_f81, xor__f83_f81, add__f83_f81, sub__f83_f81, cmp__f83_f81, and__f82_f82, or__f82_f82, xor__f82_f82, add__f82_f82, sub__f82_f82, cmp__f82_f82, and__f82_f162, or__f82_f162, xor__f82_f162, add__f82_f162, sub__f82_f162, cmp__f82_f162, and__f162_f83, or__f162_f83, xor__f162_f83, add__f162_f83, sub__f162_f83, cmp__f162_f83, shl__f82, shr__f82, shlin__f82, shrin__f82, rot__f82, cnt__f82, edit__f82, slice__f82, not__f82, shl__f83, shr__f83, shlin__f83, shrin__f83, rot__f83, cnt__f83, edit__f83, slice__f83, not__f83, shl__f162, shr__f162, shlin__f162, shrin__f162, rot__f162, cnt__f162, edit__f162, slice__f162, not__f162],
    native: [parsek__f82, mul__f83_f81, mul__f82_f82, mul__f82_f162, mul__f162_f83, and__f642_f641, or__f642_f641, xor__f642_f641, add__f642_f641, sub__f642_f641, mul__f642_f641, cmp__f642_f641, forms__f83_f81, forms__f642_f641, and__f82_bvd, or__f82_bvd, xor__f82_bvd, add__f82_bvd, sub__f82_bvd, mul__f82_bvd, cmp__f82_bvd, and__bvd_bvd, or__bvd_bvd, xor__bvd_bvd, add__bvd_bvd, sub__bvd_bvd, mul__bvd_bvd, cmp__bvd_bvd, and__bvd_f82, or__bvd_f82, xor__bvd_f82, add__bvd_f82, sub__bvd_f82, mul__bvd_f82, cmp__bvd_f82, and__bvd_f642, or__bvd_f642, xor__bvd_f642, add__bvd_f642, sub__bvd_f642, mul__bvd_f642, cmp__bvd_f642, and__bv_bv, or__bv_bv, xor__bv_bv, add__bv_bv, sub__bv_bv, mul__bv_bv, cmp__bv_bv, shl__f642, shr__f642, shlin__f642, shrin__f642, rot__f642, cnt__f642, edit__f642, slice__f642, not__f642, shl__bvd, shr__bvd, shlin__bvd, shrin__bvd, rot__bvd, cnt__bvd, edit__bvd, slice__bvd, not__bvd, shl__bv, shr__bv, shlin__bv, shrin__bv, rot__bv, cnt__bv, edit__bv, slice__bv, not__bv, div__f82_f82, div__f82_f162, div__f162_f83, div__f82_bvd, div__f642_bvd, div__bvd_bvd, div__bvd_f82, div__bv_bv, div__bv_f82, hash__f82, hash__f162, hash__f642, hash__bvd, hash__bv, int__f82_u8, int__f82_u64, int__f82_u128, int__f83_u32, int__f162_u16, int__f162_usize, int__f642_u128, int__f642_u8, int__bvd_u8, int__bvd_u64, int__bvd_u128, int__bv_u16, int__bv_u128, int__bv_usize, conv__f82_f162, conv__f162_f82, conv__f83_f82, conv__f642_f83, conv__bvd_f82, conv__bvd_f642, conv__bv_f162, conv__bv_f642, conv__f82_bvd, conv__f162_bvd, conv__f642_bvd, conv__bv_bvd, conv__f82_bv, conv__f642_bv, conv__bvd_bv, bytes__f82, bytes__f83, bytes__f162, bytes__f642, bytes__bvd, bytes__bv, fmt__f82, fmt__f162, fmt__f642, fmt__bvd, fmt__bv, parse__f82, parse__f83, parse__f642, parse__bvd, parse__bv, iter__f82, iter__f642, iter__bvd, iter__bv, cap__bvd, cap__bv, splice__f83_f82, splice__f162_f162, splice__f642_bvd, splice__bvd_f83, splice__bvd_bvd, splice__bv_bv, splice__bv_f162, extend__f83, extend__f642, extend__bvd, extend__bv, fixedcap__f82, fixedcap__f83, fixedcap__f162, fixedcap__f642, forms__f82_f162, forms__f162_bvd, forms__f642_bv, forms__bvd_bvd, forms__bvd_f83, forms__bvd_bv, forms__bv_bv, forms__bv_bvd, forms__bv_f82, hist__f83_f82, hist__f162_bvd, hist__f642_f642, hist__bvd_bvd, hist__bvd_f642, hist__bv_bv, hist__bv_bvd, div__uint, hash__bv_modes, int__bit, int__slices, conv__new_into_inner, parse__bv_long, extend__bv_cross]
);
