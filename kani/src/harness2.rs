//! Executable contracts for the remaining properties (division, hash, conversions, serialisation, formatting,
//! parsing, iterators, capacity, fixed-capacity signalling, operator forms, histories).
use crate::*;
use bva::*;
use std::hash::{Hash, Hasher};

fn sig128(v: u128) -> usize { 128 - v.leading_zeros() as usize }
fn to_bit(b: bool) -> Bit { if b { Bit::One } else { Bit::Zero } }
/// build a vector of type A with the given bits through the public safe API only
fn fresh<A: BitVector>(val: u128, len: usize) -> A {
    let mut v = A::zeros(len);
    for i in 0..len { if i < 128 && (val >> i) & 1 == 1 { v.set(i, Bit::One); } }
    v
}
/// did the closure panic? (native only; under Kani panics are verification failures, so these harnesses are not Kani proofs)
fn panics<F: FnOnce() + std::panic::UnwindSafe>(f: F) -> bool {
    let r = std::panic::catch_unwind(f);
    match r { Ok(()) => false, Err(e) => { if e.is::<Vacuous>() { std::panic::resume_unwind(e) } else { true } } }
}

// ---------------------------------------------------------------------------------------------- C02 division
macro_rules! divs { ($mm:ident, $div:ident, $A:ty, $B:ty) => {
    pub fn $div<S: Src>(s: &mut S) {
        let a = <$A as Raw>::gen(s); let b = <$B as Raw>::gen(s);
        let (va, la, vb) = (a.val(), a.len(), b.val());
        if vb == 0 {
            let (a2, b2) = (a.clone(), b.clone());
            assert!(panics(move || { let _ = a2.div_rem::<$B>(&b2); }));
            let (a3, b3) = (a.clone(), b.clone());
            assert!(panics(move || { let _ = &a3 / &b3; }));
            return;
        }
        let (q, r) = a.div_rem::<$B>(&b);
        assert!(q.wf() && r.wf()); assert!(q.len() == la && r.len() == la);
        assert!(q.val() == va / vb); assert!(r.val() == va % vb);
        let q2 = &a / &b; let r2 = &a % &b;
        assert!(q2.wf() && r2.wf()); assert!(q2.val() == va / vb && r2.val() == va % vb && q2.len() == la && r2.len() == la);
        let mut q3 = a.clone(); q3 /= &b; assert!(q3.wf() && q3.val() == va / vb);
        let mut r3 = a.clone(); r3 %= &b; assert!(r3.wf() && r3.val() == va % vb);
    }
}}
divs!(m128, div__f82_f82, F82, F82);
divs!(m128, div__f82_f162, F82, F162);
divs!(m128, div__f162_f83, F162, F83);
divs!(m128, div__f82_bvd, F82, Bvd);
divs!(m128, div__f642_bvd, F642, Bvd);
divs!(m128, div__bvd_bvd, Bvd, Bvd);
divs!(m128, div__bvd_f82, Bvd, F82);
divs!(m128, div__bv_bv, Bv, Bv);
divs!(m128, div__bv_f82, Bv, F82);
pub fn div__uint<S: Src>(s: &mut S) {
    let a = <F82 as Raw>::gen(s); let d = <Bvd as Raw>::gen(s); let v = <Bv as Raw>::gen(s);
    let x8 = s.byte(); let x64 = s.u64(); let x128 = s.u128();
    s.assume(x8 != 0 && x64 != 0 && x128 != 0);
    assert!((&a / x64).val() == a.val() / x64 as u128); assert!((&a % x128).val() == a.val() % x128);
    assert!((&a / x8).val() == a.val() / x8 as u128);
    assert!((&d / x64).val() == d.val() / x64 as u128); assert!((&d % x8).val() == d.val() % x8 as u128);
    assert!((&v / x128).val() == v.val() / x128); assert!((&v % x64).val() == v.val() % x64 as u128);
    let r = &a / x64; assert!(r.wf() && r.len() == a.len());
}

// ---------------------------------------------------------------------------------------------- C10 hash
pub struct Rec(pub Vec<u8>);
impl Hasher for Rec {
    fn finish(&self) -> u64 { 0 }
    fn write(&mut self, bytes: &[u8]) { self.0.extend_from_slice(bytes); self.0.push(0xfe); }
}
fn feed<T: Hash>(t: &T) -> Vec<u8> { let mut r = Rec(Vec::new()); t.hash(&mut r); r.0 }
macro_rules! hashes { ($name:ident, $A:ty) => {
    pub fn $name<S: Src>(s: &mut S) {
        let a = <$A as Raw>::gen(s); let b = <$A as Raw>::gen(s);
        if a == b { assert!(feed(&a) == feed(&b)); }
        // same value, different length / storage
        let la = a.len();
        let mut c = a.clone();
        let extra = s.upto(40);
        if <$A as Raw>::KIND != "bvf" || la + extra <= a.capacity() {
            c.resize(la + extra, Bit::Zero);
            assert!(c == a); assert!(feed(&c) == feed(&a));
        }
    }
}}
hashes!(hash__f82, F82);
hashes!(hash__f162, F162);
hashes!(hash__f642, F642);
hashes!(hash__bvd, Bvd);
hashes!(hash__bv, Bv);
pub fn hash__bv_modes<S: Src>(s: &mut S) {
    // the same value inline and on the heap, with and without spare capacity
    let a = <F642 as Raw>::gen(s);
    let inline = Bv::Fixed(a.clone());
    let mut heap = Bv::Dynamic(Bvd::from(&a));
    assert!(inline == heap); assert!(feed(&inline) == feed(&heap));
    heap.reserve(s.upto(200)); assert!(inline == heap); assert!(feed(&inline) == feed(&heap));
    let mut h2 = heap.clone(); h2.shrink_to_fit(); assert!(h2 == heap); assert!(feed(&h2) == feed(&heap));
}

// ---------------------------------------------------------------------------------------------- C11 integers
macro_rules! ints_fixed { ($name:ident, $A:ty, $T:ty, $w:expr) => {
    pub fn $name<S: Src>(s: &mut S) {
        let x: $T = s.u128() as $T;
        let cap = <$A>::capacity();
        let r = <$A>::try_from(x);
        if sig128(x as u128) > cap {
            assert!(r == Err(ConvertionError::NotEnoughCapacity));
        } else {
            let v = r.unwrap();
            assert!(v.wf()); assert!(v.len() == usize::min($w, cap)); assert!(v.val() == x as u128);
        }
        let a = <$A as Raw>::gen(s);
        let back = <$T>::try_from(&a);
        if a.significant_bits() <= $w { assert!(back == Ok(a.val() as $T)); } else { assert!(back == Err(ConvertionError::NotEnoughCapacity)); }
        assert!(<$T>::try_from(a.clone()) == back);
    }
}}
ints_fixed!(int__f82_u8, F82, u8, 8);
ints_fixed!(int__f82_u64, F82, u64, 64);
ints_fixed!(int__f82_u128, F82, u128, 128);
ints_fixed!(int__f83_u32, F83, u32, 32);
ints_fixed!(int__f162_u16, F162, u16, 16);
ints_fixed!(int__f162_usize, F162, usize, 64);
ints_fixed!(int__f642_u128, F642, u128, 128);
ints_fixed!(int__f642_u8, F642, u8, 8);
macro_rules! ints_dyn { ($name:ident, $A:ty, $T:ty, $w:expr) => {
    pub fn $name<S: Src>(s: &mut S) {
        let x: $T = s.u128() as $T;
        let v = <$A>::from(x);
        assert!(v.wf()); assert!(v.len() == $w); assert!(v.val() == x as u128);
        let a = <$A as Raw>::gen(s);
        let back = <$T>::try_from(&a);
        if a.significant_bits() <= $w { assert!(back == Ok(a.val() as $T)); } else { assert!(back == Err(ConvertionError::NotEnoughCapacity)); }
        assert!(<$T>::try_from(a.clone()) == back);
    }
}}
ints_dyn!(int__bvd_u8, Bvd, u8, 8);
ints_dyn!(int__bvd_u64, Bvd, u64, 64);
ints_dyn!(int__bvd_u128, Bvd, u128, 128);
ints_dyn!(int__bv_u16, Bv, u16, 16);
ints_dyn!(int__bv_u128, Bv, u128, 128);
ints_dyn!(int__bv_usize, Bv, usize, 64);
pub fn int__bit<S: Src>(s: &mut S) {
    let x = s.u64();
    assert!(Bit::from(x) == to_bit(x != 0)); assert!(Bit::from(x as u8) == to_bit(x as u8 != 0)); assert!(Bit::from(x as u128) == to_bit(x != 0));
    assert!(u8::from(Bit::One) == 1 && u64::from(Bit::Zero) == 0 && u128::from(Bit::One) == 1 && usize::from(Bit::One) == 1);
    assert!(bool::from(Bit::One) && !bool::from(Bit::Zero)); assert!(Bit::from(true) == Bit::One && Bit::from(false) == Bit::Zero);
}
pub fn int__slices<S: Src>(s: &mut S) {
    let n = s.upto(3);
    let xs: Vec<u8> = (0..n).map(|_| s.byte()).collect();
    let mut val = 0u128; for (i, x) in xs.iter().enumerate() { val |= (*x as u128) << (8 * i); }
    let r = F82::try_from(&xs[..]);
    if n * 8 > 16 { assert!(r == Err(ConvertionError::NotEnoughCapacity)); } else { let v = r.unwrap(); assert!(v.wf() && v.len() == n * 8 && v.val() == val); }
    let d = Bvd::from(&xs[..]); assert!(d.wf() && d.len() == n * 8 && d.val() == val);
    let b = Bv::from(&xs[..]); assert!(b.wf() && b.len() == n * 8 && b.val() == val);
    let ys: Vec<u16> = (0..n).map(|_| s.u16()).collect();
    let mut val2 = 0u128; for (i, x) in ys.iter().enumerate() { val2 |= (*x as u128) << (16 * i); }
    let r2 = F83::try_from(&ys[..]);
    if n * 16 > 24 { assert!(r2 == Err(ConvertionError::NotEnoughCapacity)); } else { let v = r2.unwrap(); assert!(v.wf() && v.len() == n * 16 && v.val() == val2); }
    let d2 = Bvd::from(&ys[..]); assert!(d2.wf() && d2.len() == n * 16 && d2.val() == val2);
}

// ---------------------------------------------------------------------------------------------- C12 conversions
macro_rules! conv_try { ($name:ident, $A:ty, $B:ty) => {
    pub fn $name<S: Src>(s: &mut S) {
        let a = <$A as Raw>::gen(s);
        let r = <$B>::try_from(&a);
        if a.len() > <$B>::capacity() { assert!(r.is_err()); } else {
            let v = r.unwrap(); assert!(v.wf()); assert!(v.len() == a.len()); assert!(v.val() == a.val());
        }
    }
}}
conv_try!(conv__f82_f162, F82, F162);
conv_try!(conv__f162_f82, F162, F82);
conv_try!(conv__f83_f82, F83, F82);
conv_try!(conv__f642_f83, F642, F83);
conv_try!(conv__f816_f1281, F816, F1281);
conv_try!(conv__f1281_f816, F1281, F816);
conv_try!(conv__bvd_f82, Bvd, F82);
conv_try!(conv__bvd_f642, Bvd, F642);
conv_try!(conv__bv_f162, Bv, F162);
conv_try!(conv__bv_f642, Bv, F642);
macro_rules! conv_from { ($name:ident, $A:ty, $B:ty) => {
    pub fn $name<S: Src>(s: &mut S) {
        let a = <$A as Raw>::gen(s);
        let v = <$B>::from(&a);
        assert!(v.wf()); assert!(v.len() == a.len()); assert!(v.val() == a.val());
        let w = <$B>::from(a.clone());
        assert!(w.wf()); assert!(w.len() == a.len()); assert!(w.val() == a.val());
    }
}}
conv_from!(conv__f82_bvd, F82, Bvd);
conv_from!(conv__f162_bvd, F162, Bvd);
conv_from!(conv__f642_bvd, F642, Bvd);
conv_from!(conv__bv_bvd, Bv, Bvd);
conv_from!(conv__f82_bv, F82, Bv);
conv_from!(conv__f642_bv, F642, Bv);
conv_from!(conv__bvd_bv, Bvd, Bv);
pub fn conv__new_into_inner<S: Src>(s: &mut S) {
    let a = <F83 as Raw>::gen(s);
    let (d, l) = a.clone().into_inner(); let b = F83::new(d, l);
    assert!(b == a && b.len() == a.len() && b.val() == a.val());
    let c = <Bvd as Raw>::gen(s);
    let (d, l) = c.clone().into_inner(); let e = Bvd::new(d, l);
    assert!(e == c && e.len() == c.len() && e.val() == c.val() && e.capacity() == c.capacity());
}

// ---------------------------------------------------------------------------------------------- C13 bytes / streams
macro_rules! bytes { ($name:ident, $A:ty) => {
    pub fn $name<S: Src>(s: &mut S) {
        let a = <$A as Raw>::gen(s);
        let (va, la) = (a.val(), a.len());
        let nb = (la + 7) / 8;
        let le = a.to_vec(Endianness::Little); let be = a.to_vec(Endianness::Big);
        assert!(le.len() == nb && be.len() == nb);
        for j in 0..nb { let e = ((va >> (8 * j)) & 0xff) as u8; assert!(le[j] == e); assert!(be[nb - 1 - j] == e); }
        let mut w = Vec::new(); a.write(&mut w, Endianness::Big).unwrap(); assert!(w == be);
        // from_bytes: inverse with length 8*|bytes|
        let fixed = <$A as Raw>::KIND == "bvf";
        let n = s.upto(17);
        let bs: Vec<u8> = (0..n).map(|_| s.byte()).collect();
        let mut vb = 0u128; for (i, x) in bs.iter().enumerate() { if i < 16 { vb |= (*x as u128) << (8 * i); } }
        let r = <$A>::from_bytes(&bs, Endianness::Little);
        if fixed && n * 8 > a.capacity() { assert!(r == Err(ConvertionError::NotEnoughCapacity)); }
        else if n <= 16 { let v = r.unwrap(); assert!(v.wf() && v.len() == 8 * n && v.val() == vb); }
        let mut rev = bs.clone(); rev.reverse();
        let r2 = <$A>::from_bytes(&rev, Endianness::Big);
        if !(fixed && n * 8 > a.capacity()) && n <= 16 { let v = r2.unwrap(); assert!(v.wf() && v.len() == 8 * n && v.val() == vb); }
        // read: exactly ceil(len/8) bytes consumed, exactly len bits, surplus dropped, errors not panics
        let want = s.upto(128);
        let mut cur: &[u8] = &bs;
        let rr = <$A>::read(&mut cur, want, Endianness::Little);
        let need = (want + 7) / 8;
        if fixed && want > a.capacity() { assert!(rr.is_err()); }
        else if need > n { assert!(rr.is_err()); }
        else {
            let v = rr.unwrap(); assert!(v.wf()); assert!(v.len() == want); assert!(v.val() == vb & mask128(want));
            assert!(cur.len() == n - need);
        }
        // round trip
        let mut buf = Vec::new(); a.write(&mut buf, Endianness::Little).unwrap();
        let mut c2: &[u8] = &buf; let back = <$A>::read(&mut c2, la, Endianness::Little).unwrap();
        assert!(back.wf() && back.len() == la && back.val() == va);
        let fb = <$A>::from_bytes(&le, Endianness::Little).unwrap(); assert!(fb.wf() && fb.val() == va && fb.len() == 8 * nb);
    }
}}
bytes!(bytes__f82, F82);
bytes!(bytes__f83, F83);
bytes!(bytes__f162, F162);
bytes!(bytes__f642, F642);
bytes!(bytes__bvd, Bvd);
bytes!(bytes__bv, Bv);

// ---------------------------------------------------------------------------------------------- C14 formatting
macro_rules! fmts { ($name:ident, $A:ty) => {
    pub fn $name<S: Src>(s: &mut S) {
        let a = <$A as Raw>::gen(s);
        let v = a.val();
        assert!(format!("{}", a) == format!("{}", v)); assert!(format!("{:b}", a) == format!("{:b}", v));
        assert!(format!("{:o}", a) == format!("{:o}", v)); assert!(format!("{:x}", a) == format!("{:x}", v));
        assert!(format!("{:X}", a) == format!("{:X}", v));
        assert!(format!("{:#x}", a) == format!("{:#x}", v)); assert!(format!("{:#b}", a) == format!("{:#b}", v));
        assert!(format!("{:#o}", a) == format!("{:#o}", v)); assert!(format!("{:#X}", a) == format!("{:#X}", v));
        assert!(format!("{:+}", a) == format!("{:+}", v)); assert!(format!("{:010}", a) == format!("{:010}", v));
        assert!(format!("{:>12x}", a) == format!("{:>12x}", v)); assert!(format!("{:*<9b}", a) == format!("{:*<9b}", v));
        assert!(format!("{:#012o}", a) == format!("{:#012o}", v)); assert!(format!("{:^7X}", a) == format!("{:^7X}", v));
        assert!(format!("{:#}", a) == format!("{:#}", v)); assert!(format!("{:+#012}", a) == format!("{:+#012}", v));
        assert!(format!("{:<6}", a) == format!("{:<6}", v)); assert!(format!("{:+#b}", a) == format!("{:+#b}", v));
        assert!(format!("{:03x}", a) == format!("{:03x}", v)); assert!(format!("{:-^20o}", a) == format!("{:-^20o}", v));
    }
}}
/// zero-capacity fixed types (D12: Display built the base 10 before looking at the value, which does not fit 0 bits): every format of the empty vector is that of 0
pub fn fmt__zero_capacity<S: Src>(s: &mut S) {
    let _ = s.byte();
    let a = bva::Bvf::<u8, 0>::zeros(0);
    let b = bva::Bvf::<u64, 0>::zeros(0);
    assert!(format!("{}", a) == "0" && format!("{}", b) == "0");
    assert!(format!("{:b}", a) == "0" && format!("{:o}", a) == "0" && format!("{:x}", a) == "0" && format!("{:X}", a) == "0");
    assert!(format!("{:#b}", b) == "0b0" && format!("{:#o}", b) == "0o0" && format!("{:#x}", b) == "0x0" && format!("{:+05}", b) == format!("{:+05}", 0u8));
}
fmts!(fmt__f82, F82);
fmts!(fmt__f162, F162);
fmts!(fmt__f642, F642);
fmts!(fmt__bvd, Bvd);
fmts!(fmt__bv, Bv);

// ---------------------------------------------------------------------------------------------- C15 parsing
macro_rules! parses { ($name:ident, $A:ty) => {
    pub fn $name<S: Src>(s: &mut S) {
        let fixed = <$A as Raw>::KIND == "bvf";
        let cap = if fixed { <$A as Raw>::gen(&mut VecSrc::new(vec![0; 64])).capacity() } else { usize::MAX };
        let n = s.upto(20);
        // characters from a small alphabet with valid digits, invalid ASCII and a non-ASCII character
        const ALPHA: [char; 12] = ['0', '1', '0', '1', '9', 'a', 'F', 'g', ' ', 'x', '\u{e9}', '2'];
        let cs: Vec<char> = (0..n).map(|_| ALPHA[s.upto(11)]).collect();
        let st: String = cs.iter().collect();
        // binary
        let rb = <$A>::from_binary(&st);
        let bad_b = cs.iter().position(|c| *c != '0' && *c != '1');
        if n > cap { if bad_b.is_none() { assert!(rb == Err(ConvertionError::NotEnoughCapacity)); } else { assert!(rb.is_err()); } }
        else if let Some(i) = bad_b { assert!(rb == Err(ConvertionError::InvalidFormat(i))); }
        else {
            let v = rb.unwrap(); assert!(v.wf() && v.len() == n);
            let mut e = 0u128; for c in cs.iter() { e = (e << 1) | (if *c == '1' { 1 } else { 0 }); }
            assert!(v.val() == e);
        }
        // hex
        let rh = <$A>::from_hex(&st);
        let bad_h = cs.iter().position(|c| !c.is_ascii_hexdigit());
        if n.saturating_mul(4) > cap { if bad_h.is_none() { assert!(rh == Err(ConvertionError::NotEnoughCapacity)); } else { assert!(rh.is_err()); } }
        else if let Some(i) = bad_h { assert!(rh == Err(ConvertionError::InvalidFormat(i))); }
        else {
            let v = rh.unwrap(); assert!(v.wf() && v.len() == 4 * n);
            let mut e = 0u128; for c in cs.iter() { e = (e << 4) | c.to_digit(16).unwrap() as u128; }
            assert!(v.val() == e);
        }
        // parsing inverts formatting
        let a = <$A as Raw>::gen(s);
        assert!(<$A>::from_binary(format!("{:b}", a)).unwrap() == a);
        assert!(<$A>::from_hex(format!("{:x}", a)).unwrap() == a); assert!(<$A>::from_hex(format!("{:X}", a)).unwrap() == a);
    }
}}
parses!(parse__f82, F82);
parses!(parse__f83, F83);
parses!(parse__f642, F642);
parses!(parse__bvd, Bvd);
parses!(parse__bv, Bv);
pub fn parse__bv_long<S: Src>(s: &mut S) {
    // auto type on both sides of the inline limit (128)
    let n = 120 + s.upto(20);
    let cs: Vec<char> = (0..n).map(|_| if s.byte() & 1 == 1 { '1' } else { '0' }).collect();
    let st: String = cs.iter().collect();
    let v = Bv::from_binary(&st).unwrap();
    assert!(v.len() == n);
    for i in 0..n { assert!(v.get(n - 1 - i) == to_bit(cs[i] == '1')); }
    assert!(format!("{:b}", v).trim_start_matches('0') == st.trim_start_matches('0') || (st.chars().all(|c| c == '0') && format!("{:b}", v) == "0"));
    let hx: String = (0..(28 + s.upto(8))).map(|_| std::char::from_digit((s.byte() & 15) as u32, 16).unwrap()).collect();
    let h = Bv::from_hex(&hx).unwrap(); assert!(h.len() == 4 * hx.len());
    assert!(Bv::from_hex(format!("{:x}", h)).unwrap() == h);
}

// ---------------------------------------------------------------------------------------------- C17 iterators
macro_rules! iters { ($name:ident, $A:ty) => {
    pub fn $name<S: Src>(s: &mut S) {
        let a = <$A as Raw>::gen(s);
        let model: Vec<Bit> = (0..a.len()).map(|i| to_bit((a.val() >> i) & 1 == 1)).collect();
        let before = a.clone();
        assert!(a.iter().collect::<Vec<Bit>>() == model);
        assert!((&a).into_iter().rev().collect::<Vec<Bit>>() == model.iter().rev().cloned().collect::<Vec<Bit>>());
        let mut it = a.iter(); let mut mi = model.iter();
        let steps = s.upto(8);
        for _ in 0..steps {
            let arg = match s.upto(5) { 0 => 0usize, 1 => 1, 2 => s.upto(140), 3 => usize::MAX, 4 => usize::MAX - 1, _ => s.upto(3) };
            match s.upto(5) {
                0 => assert!(it.next() == mi.next().cloned()),
                1 => assert!(it.next_back() == mi.next_back().cloned()),
                2 => assert!(it.nth(arg) == mi.nth(arg).cloned()),
                3 => assert!(it.nth_back(arg) == mi.nth_back(arg).cloned()),
                4 => assert!(it.size_hint() == mi.size_hint()),
                _ => assert!(it.next() == mi.next().cloned()),
            }
        }
        assert!(it.size_hint() == mi.size_hint());
        match s.upto(2) {
            0 => assert!(it.count() == mi.count()),
            1 => assert!(it.last() == mi.last().cloned()),
            _ => { assert!(it.next() == mi.next().cloned()); assert!(it.next_back() == mi.next_back().cloned()); }
        }
        assert!(a == before && a.len() == before.len());
    }
}}
iters!(iter__f82, F82);
iters!(iter__f642, F642);
iters!(iter__bvd, Bvd);
iters!(iter__bv, Bv);

// ---------------------------------------------------------------------------------------------- C18 capacity
macro_rules! caps { ($name:ident, $A:ty) => {
    pub fn $name<S: Src>(s: &mut S) {
        let c0 = s.upto(200);
        let w = <$A>::with_capacity(c0);
        assert!(w.wf() && w.len() == 0 && w.capacity() >= c0);
        let mut a = <$A as Raw>::gen(s);
        let (va, la) = (a.val(), a.len());
        for _ in 0..s.upto(4) {
            match s.upto(3) {
                0 => { let k = s.upto(200); a.reserve(k); assert!(a.capacity() >= la + k); }
                1 => { a.shrink_to_fit(); let f = fresh::<$A>(va, la); assert!(a.capacity() <= f.capacity()); }
                2 => { let k = s.upto(100); a.reserve(k); a.shrink_to_fit(); }
                _ => { let mut b = a.clone(); b.push(Bit::One); assert!(b.len() == la + 1 && b.len() <= b.capacity()); }
            }
            assert!(a.wf()); assert!(a.len() == la && a.val() == va); assert!(a.len() <= a.capacity());
            assert!(a == fresh::<$A>(va, la));
        }
        // growth never fails
        let g = s.upto(70);
        let mut b = a.clone(); b.resize(la + g, Bit::Zero); assert!(b.len() == la + g && b.len() <= b.capacity() && b.val() == va);
        let mut c = a.clone(); c.append(&fresh::<$A>(0, g)); assert!(c.len() == la + g && c.val() == va);
    }
}}
caps!(cap__bvd, Bvd);
caps!(cap__bv, Bv);

// ---------------------------------------------------------------------------------------------- C07 splice edits
macro_rules! splices { ($name:ident, $A:ty, $B:ty) => {
    pub fn $name<S: Src>(s: &mut S) {
        let a = <$A as Raw>::gen(s); let b = <$B as Raw>::gen(s);
        let (va, la, vb, lb) = (a.val(), a.len(), b.val(), b.len());
        let fixed = <$A as Raw>::KIND == "bvf";
        s.assume(la + lb <= 128); s.assume(!fixed || la + lb <= a.capacity());
        let mut x = a.clone(); x.append(&b);
        assert!(x.wf()); assert!(x.len() == la + lb); assert!(x.val() == va | (if la >= 128 { 0 } else { vb << la }));
        let mut y = a.clone(); y.prepend(&b);
        assert!(y.wf()); assert!(y.len() == la + lb); assert!(y.val() == vb | (if lb >= 128 { 0 } else { va << lb }));
        let i = s.upto(128); s.assume(i <= la);
        let mut z = a.clone(); z.insert(i, &b);
        let lo = va & mask128(i); let hi = if i >= 128 { 0 } else { va >> i };
        let e = lo | (if i >= 128 { 0 } else { vb << i }) | (if i + lb >= 128 { 0 } else { hi << (i + lb) });
        assert!(z.wf()); assert!(z.len() == la + lb); assert!(z.val() == e);
    }
}}
splices!(splice__f83_f82, F83, F82);
splices!(splice__f162_f162, F162, F162);
splices!(splice__f642_bvd, F642, Bvd);
splices!(splice__bvd_f83, Bvd, F83);
splices!(splice__bvd_bvd, Bvd, Bvd);
splices!(splice__bv_bv, Bv, Bv);
splices!(splice__bv_f162, Bv, F162);
macro_rules! extends { ($name:ident, $A:ty) => {
    pub fn $name<S: Src>(s: &mut S) {
        let a = <$A as Raw>::gen(s);
        let (va, la) = (a.val(), a.len());
        let fixed = <$A as Raw>::KIND == "bvf";
        let n = s.upto(20);
        s.assume(la + n <= 128); s.assume(!fixed || la + n <= a.capacity());
        let bits: Vec<Bit> = (0..n).map(|_| s.bit()).collect();
        let mut e = va; for (i, b) in bits.iter().enumerate() { e |= bitval(*b) << (la + i); }
        let mut x = a.clone(); x.extend(bits.iter().cloned());
        assert!(x.wf() && x.len() == la + n && x.val() == e);
        // an iterator whose size_hint lower bound under-reports
        let mut y = a.clone(); y.extend(bits.iter().cloned().filter(|_| true));
        assert!(y.wf() && y.len() == la + n && y.val() == e);
        let c: $A = bits.iter().cloned().collect();
        let mut ec = 0u128; for (i, b) in bits.iter().enumerate() { ec |= bitval(*b) << i; }
        if !fixed || n <= c.capacity() { assert!(c.wf() && c.len() == n && c.val() == ec); }
        let c2: $A = bits.iter().cloned().filter(|_| true).collect();
        assert!(c2.wf() && c2.len() == n && c2.val() == ec);
    }
}}
extends!(extend__f83, F83);
extends!(extend__f642, F642);
extends!(extend__bvd, Bvd);
extends!(extend__bv, Bv);
pub fn extend__bv_cross<S: Src>(s: &mut S) {
    // growing an inline Bv across the 128-bit limit in every way
    let a = <F642 as Raw>::gen(s);
    let (va, la) = (a.val(), a.len());
    let n = s.upto(150);
    let base = Bv::Fixed(a);
    let mut x = base.clone(); x.extend((0..n).map(|_| Bit::Zero).filter(|_| true));
    assert!(x.len() == la + n && x.len() <= x.capacity()); assert!(x == base);
    let mut y = base.clone(); for _ in 0..n { y.push(Bit::Zero); } assert!(y.len() == la + n && y == base);
    let mut z = base.clone(); z.resize(la + n, Bit::Zero); assert!(z.len() == la + n && z == base);
    let mut w = base.clone(); w.append(&Bvd::zeros(n)); assert!(w.len() == la + n && w == base);
    let mut p = base.clone(); p.prepend(&Bv::zeros(n)); assert!(p.len() == la + n);
    if la + n <= 128 { assert!(p.val() == va << n || n >= 128); }
    for v in [&x, &y, &z, &w] { for i in 0..la { assert!(v.get(i) == to_bit((va >> i) & 1 == 1)); } for i in la..la + n { assert!(v.get(i) == Bit::Zero); } }
}

// ---------------------------------------------------------------------------------------------- C19 fixed capacity signalling
macro_rules! fixedcaps { ($name:ident, $A:ty) => {
    pub fn $name<S: Src>(s: &mut S) {
        let cap = <$A>::capacity();
        let over = cap + 1 + s.upto(20);
        assert!(panics(move || { let _ = <$A>::zeros(over); })); assert!(panics(move || { let _ = <$A>::ones(over); }));
        let a = <$A as Raw>::gen(s); let la = a.len();
        let g = s.upto(40);
        if la + g > cap {
            let a1 = a.clone(); assert!(panics(move || { let mut x = a1; x.resize(la + g, Bit::One); }));
            let a2 = a.clone(); assert!(panics(move || { let mut x = a2; x.append(&Bvd::zeros(g)); }));
            let a3 = a.clone(); assert!(panics(move || { let mut x = a3; x.prepend(&Bvd::ones(g)); }));
            let a4 = a.clone(); assert!(panics(move || { let mut x = a4; x.insert(0, &Bvd::zeros(g)); }));
            let a5 = a.clone(); assert!(panics(move || { let mut x = a5; x.extend((0..g).map(|_| Bit::One)); }));
            let a6 = a.clone(); assert!(panics(move || { let mut x = a6; x.sign_extend(la + g); }));
            assert!(panics(move || { let _: $A = (0..cap + g + 1).map(|_| Bit::One).collect(); }));
        }
        if la == cap { let a7 = a.clone(); assert!(panics(move || { let mut x = a7; x.push(Bit::One); })); }
        let nb = cap / 8 + 1 + s.upto(3);
        let bytes = vec![0xffu8; nb];
        assert!(<$A>::from_bytes(&bytes, Endianness::Little) == Err(ConvertionError::NotEnoughCapacity));
        let mut cur: &[u8] = &bytes; assert!(<$A>::read(&mut cur, cap + 1, Endianness::Big).is_err());
        let st: String = (0..cap + 1).map(|_| '1').collect();
        assert!(<$A>::from_binary(&st) == Err(ConvertionError::NotEnoughCapacity));
        let hx: String = (0..cap / 4 + 1).map(|_| 'f').collect();
        assert!(<$A>::from_hex(&hx) == Err(ConvertionError::NotEnoughCapacity));
        assert!(<$A>::try_from(&Bvd::ones(cap + 1)).is_err());
        // TryFrom beyond capacity is an error whatever the source's implementation and VALUE (also when the excess bits are zero)
        let lo = s.upto(cap);
        let mut zl = Bvd::ones(lo); zl.resize(over, Bit::Zero);
        assert!(<$A>::try_from(&zl).is_err());
        assert!(<$A>::try_from(zl.clone()).is_err());
        assert!(<$A>::try_from(&Bv::from(zl.clone())).is_err());
        let mut wide = Bvf::<u64, 3>::ones(lo); wide.resize(over, Bit::Zero);
        assert!(<$A>::try_from(&wide).is_err());
        let mut w8 = Bvf::<u8, 20>::ones(lo); w8.resize(over, Bit::Zero);
        assert!(<$A>::try_from(&w8).is_err());
        if cfg!(debug_assertions) && la > 0 {
            let i = la + s.upto(5);
            let b1 = a.clone(); assert!(panics(move || { let _ = b1.get(i); }));
            let b2 = a.clone(); assert!(panics(move || { let mut x = b2; x.set(i, Bit::One); }));
            let b3 = a.clone(); assert!(panics(move || { let _ = b3.copy_range(0..i + 1); }));
        }
    }
}}
fixedcaps!(fixedcap__f82, F82);
fixedcaps!(fixedcap__f83, F83);
fixedcaps!(fixedcap__f162, F162);
fixedcaps!(fixedcap__f642, F642);

// ---------------------------------------------------------------------------------------------- C20 operator forms
macro_rules! forms { ($name:ident, $A:ty, $B:ty) => {
    pub fn $name<S: Src>(s: &mut S) {
        let a = <$A as Raw>::gen(s); let b = <$B as Raw>::gen(s);
        let (a0, b0) = (a.clone(), b.clone());
        macro_rules! same { ($x:expr, $y:expr) => {{ let (x, y) = ($x, $y); assert!(x.wf() && y.wf()); assert!(x.len() == y.len() && x.val() == y.val()); }} }
        same!(&a + &b, a.clone() + b.clone()); same!(&a + &b, a.clone() + &b); same!(&a + &b, &a + b.clone());
        { let mut t = a.clone(); t += &b; same!(&a + &b, t); let mut u = a.clone(); u += b.clone(); same!(&a + &b, u); }
        same!(&a - &b, a.clone() - b.clone()); { let mut t = a.clone(); t -= &b; same!(&a - &b, t); }
        same!(&a * &b, a.clone() * b.clone()); same!(&a * &b, a.clone() * &b); { let mut t = a.clone(); t *= &b; same!(&a * &b, t); let mut u = a.clone(); u *= b.clone(); same!(&a * &b, u); }
        same!(&a & &b, a.clone() & b.clone()); { let mut t = a.clone(); t &= &b; same!(&a & &b, t); }
        same!(&a | &b, a.clone() | &b); { let mut t = a.clone(); t |= b.clone(); same!(&a | &b, t); }
        same!(&a ^ &b, &a ^ b.clone()); { let mut t = a.clone(); t ^= &b; same!(&a ^ &b, t); }
        if b.val() != 0 {
            same!(&a / &b, a.clone() / b.clone()); same!(&a / &b, a.clone() / &b); { let mut t = a.clone(); t /= &b; same!(&a / &b, t); let mut u = a.clone(); u /= b.clone(); same!(&a / &b, u); }
            same!(&a % &b, &a % b.clone()); { let mut t = a.clone(); t %= &b; same!(&a % &b, t); }
        }
        // borrowed operands and clones are untouched
        assert!(a.len() == a0.len() && a.val() == a0.val() && b.len() == b0.len() && b.val() == b0.val());
        // shifts
        let k = s.byte();
        same!(&a << k, a.clone() << k); same!(&a << k, &a << &k); same!(&a << k, a.clone() << &k); { let mut t = a.clone(); t <<= k; same!(&a << k, t); let mut u = a.clone(); u <<= &k; same!(&a << k, u); }
        same!(&a >> k, a.clone() >> k); same!(&a >> k, &a >> &k); { let mut t = a.clone(); t >>= k; same!(&a >> k, t); }
        same!(&a << k, &a << (k as u128)); same!(&a >> k, &a >> (k as usize)); same!(&a << k, &a << (k as u16));
        // wide amounts (>= 2^32, >= 2^64): every form saturates the same way
        let kw = shift_amount(s);
        same!(&a << kw, a.clone() << kw); same!(&a << kw, &a << &kw); { let mut t = a.clone(); t <<= kw; same!(&a << kw, t); }
        same!(&a >> kw, a.clone() >> kw); same!(&a >> kw, a.clone() >> &kw); { let mut t = a.clone(); t >>= kw; same!(&a >> kw, t); }
        let k64 = (kw >> 7) as u64;
        same!(&a << k64, a.clone() << k64); { let mut t = a.clone(); t <<= k64; same!(&a << k64, t); }
        same!(&a >> k64, a.clone() >> k64); { let mut t = a.clone(); t >>= &k64; same!(&a >> k64, t); }
        same!(!&a, !a.clone());
        // native integer operand vs a vector built from it
        let x = s.u64();
        let xv = Bvd::from(x);
        same!(&a + x, &a + &xv); same!(&a - x, &a - &xv); same!(&a * x, &a * &xv); same!(&a & x, &a & &xv); same!(&a | x, &a | &xv); same!(&a ^ x, &a ^ &xv);
        same!(&a + &x, &a + &xv); same!(a.clone() | x, &a | &xv); { let mut t = a.clone(); t ^= x; same!(t, &a ^ &xv); let mut u = a.clone(); u += &x; same!(u, &a + &xv); }
        if x != 0 { same!(&a / x, &a / &xv); same!(&a % x, &a % &xv); }
        let x8 = s.byte(); let xv8 = Bvd::from(x8);
        same!(&a | x8, &a | &xv8); same!(&a + x8, &a + &xv8);
        // ... whatever implementation that vector has (same-word-type and different-word-type operand paths)
        let xf8 = F81::try_from(x8).unwrap(); let xf64 = F641::try_from(x).unwrap();
        same!(&a + x8, &a + &xf8); same!(&a - x8, &a - &xf8); same!(&a ^ x8, &a ^ &xf8);
        same!(&a + x, &a + &xf64); same!(&a - x, &a - &xf64); same!(&a & x, &a & &xf64);
        let x128 = s.u128(); let xv128 = Bvd::from(x128);
        same!(&a ^ x128, &a ^ &xv128); same!(&a * x128, &a * &xv128);
    }
}}
forms!(forms__f82_f162, F82, F162);
forms!(forms__f83_f81, F83, F81);
forms!(forms__f642_f641, F642, F641);
forms!(forms__f162_bvd, F162, Bvd);
forms!(forms__f642_bv, F642, Bv);
forms!(forms__bvd_bvd, Bvd, Bvd);
forms!(forms__bvd_f83, Bvd, F83);
forms!(forms__bvd_bv, Bvd, Bv);
forms!(forms__bv_bv, Bv, Bv);
forms!(forms__bv_bvd, Bv, Bvd);
forms!(forms__bv_f82, Bv, F82);

// ---------------------------------------------------------------------------------------------- C03 histories
/// observers must not distinguish a vector with some history from a freshly built one with the same bits
fn same_observations<A: Raw + Clone + std::fmt::Display + std::fmt::Binary + std::fmt::LowerHex + std::fmt::Octal + Hash + PartialEq + PartialOrd>(h: &A, f: &A, probe: &A) {
    assert!(h.len() == f.len());
    for i in 0..h.len() { assert!(h.get(i) == f.get(i)); }
    assert!(h == f && f == h); assert!(h.partial_cmp(f) == Some(std::cmp::Ordering::Equal));
    assert!((h == probe) == (f == probe)); assert!(h.partial_cmp(probe) == f.partial_cmp(probe)); assert!(probe.partial_cmp(h) == probe.partial_cmp(f));
    assert!(feed(h) == feed(f));
    assert!(h.is_zero() == f.is_zero()); assert!(h.leading_zeros() == f.leading_zeros() && h.leading_ones() == f.leading_ones());
    assert!(h.trailing_zeros() == f.trailing_zeros() && h.trailing_ones() == f.trailing_ones() && h.significant_bits() == f.significant_bits());
    assert!(h.to_vec(Endianness::Little) == f.to_vec(Endianness::Little)); assert!(h.to_vec(Endianness::Big) == f.to_vec(Endianness::Big));
    assert!(format!("{} {:b} {:x} {:o}", h, h, h, h) == format!("{} {:b} {:x} {:o}", f, f, f, f));
    assert!(h.iter().collect::<Vec<Bit>>() == f.iter().collect::<Vec<Bit>>());
    assert!(u128::try_from(&Bvd::from_bytes(h.to_vec(Endianness::Little), Endianness::Little).unwrap()).ok() == u128::try_from(&Bvd::from_bytes(f.to_vec(Endianness::Little), Endianness::Little).unwrap()).ok());
}
macro_rules! hists { ($name:ident, $A:ty, $B:ty) => {
    pub fn $name<S: Src>(s: &mut S) {
        let fixed = <$A as Raw>::KIND == "bvf";
        let mut h = <$A as Raw>::gen(s);
        let cap = if fixed { h.capacity() } else { 128 };
        for _ in 0..(1 + s.upto(5)) {
            let o = <$B as Raw>::gen(s);
            let l = h.len();
            match s.upto(23) {
                0 => { if l < cap { h.push(s.bit()); } }
                1 => { h.pop(); }
                2 => { let n = s.upto(cap); h.resize(n, s.bit()); }
                3 => { h.truncate(s.upto(cap)); }
                4 => { let n = s.upto(cap); h.sign_extend(n); }
                5 => { h |= &o; }
                6 => { h ^= &o; }
                7 => { h &= &o; }
                8 => { h += &o; }
                9 => { h -= &o; }
                10 => { h = &h * &o; }
                11 => { h <<= s.upto(140) as u32; }
                12 => { h >>= s.upto(140) as u64; }
                13 => { if l > 0 { let k = s.upto(l); h.rotl(k); } }
                14 => { if l > 0 { let k = s.upto(l); h.rotr(k); } }
                15 => { h = !h; }
                16 => { if l + o.len() <= cap { h.append(&o); } }
                17 => { if l + o.len() <= cap && o.len() > 0 { h.prepend(&o); } }
                18 => { let i = s.upto(l); let _ = h.split_off(i); }
                19 => { let a = s.upto(l); let b = a + s.upto(l - a); h = h.copy_range(a..b); }
                20 => { h.shl_in(s.bit()); }
                21 => { h.shr_in(s.bit()); }
                22 => { let nbits = s.upto(cap); let nb = (nbits + 7) / 8; let bs: Vec<u8> = (0..nb).map(|_| s.byte()).collect(); let mut c: &[u8] = &bs; h = <$A>::read(&mut c, nbits, Endianness::Little).unwrap(); }
                _ => { if o.val() != 0 { h = &h / &o; } }
            }
            assert!(h.wf());
        }
        let f = fresh::<$A>(h.val(), h.len());
        let probe = <$A as Raw>::gen(s);
        same_observations(&h, &f, &probe);
        // the next operation gives the same result on both
        let (mut h2, mut f2) = (h.clone(), f.clone());
        let g = s.upto(30);
        if h.len() + g <= cap { h2.resize(h.len() + g, Bit::Zero); f2.resize(f.len() + g, Bit::Zero); same_observations(&h2, &f2, &probe); }
        let (mut h3, mut f3) = (h.clone(), f.clone()); h3 += &probe; f3 += &probe; same_observations(&h3, &f3, &probe);
        let (h4, f4) = (&probe * &h, &probe * &f); assert!(h4.val() == f4.val());
        let (h5, f5) = (&probe | &h, &probe | &f); assert!(h5.val() == f5.val() && h5.wf());
        let (h6, f6) = (Bvd::from(&Bv::from(&Bvd::from_bytes(h.to_vec(Endianness::Little), Endianness::Little).unwrap())), Bvd::from(&Bv::from(&Bvd::from_bytes(f.to_vec(Endianness::Little), Endianness::Little).unwrap()))); assert!(h6 == f6);
    }
}}
hists!(hist__f83_f82, F83, F82);
hists!(hist__f162_bvd, F162, Bvd);
hists!(hist__f642_f642, F642, F642);
hists!(hist__bvd_bvd, Bvd, Bvd);
hists!(hist__bvd_f642, Bvd, F642);
hists!(hist__bv_bv, Bv, Bv);
hists!(hist__bv_bvd, Bv, Bvd);

// ---------------------------------------------------------------------------------------------- C15 bounded stand-in (Kani)
// from_binary / from_hex of Bvf<u8,2> on EVERY string of up to 2 characters over an alphabet with valid digits, invalid ASCII and a
// two-byte character; assembled in a stack buffer (no String/Vec/format!, which CBMC cannot take at useful bounds)
pub fn parsek__f82<S: Src>(s: &mut S) {
    const ALPHA: [char; 6] = ['0', '1', '9', 'F', 'g', '\u{e9}'];
    let n = s.upto(2);
    let mut buf = [0u8; 8];
    let mut cs = ['0'; 2];
    let mut len = 0usize;
    let mut i = 0;
    while i < n {
        let c = ALPHA[s.upto(5)];
        cs[i] = c;
        len += c.encode_utf8(&mut buf[len..]).len();
        i += 1;
    }
    // the pieces are produced by char::encode_utf8: valid UTF-8 by construction
    let st: &str = unsafe { core::str::from_utf8_unchecked(&buf[..len]) };
    let cap = 16usize;
    // binary
    let rb = F82::from_binary(st);
    let mut bad_b: Option<usize> = None; let mut eb = 0u32;
    let mut k = 0; while k < n { if bad_b.is_none() && cs[k] != '0' && cs[k] != '1' { bad_b = Some(k); } eb = (eb << 1) | (if cs[k] == '1' { 1 } else { 0 }); k += 1; }
    if n > cap { assert!(rb.is_err()); }
    else if let Some(p) = bad_b { assert!(rb == Err(ConvertionError::InvalidFormat(p))); }
    else { let v = rb.unwrap(); assert!(v.wf() && v.len() == n); assert!(v.val() == eb as u128); }
    // hex
    let rh = F82::from_hex(st);
    let mut bad_h: Option<usize> = None; let mut eh = 0u32;
    let mut k = 0; while k < n { match cs[k].to_digit(16) { Some(d) => { eh = (eh << 4) | d as u32; } None => { if bad_h.is_none() { bad_h = Some(k); } } } k += 1; }
    if 4 * n > cap { assert!(rh.is_err()); }
    else if let Some(p) = bad_h { assert!(rh == Err(ConvertionError::InvalidFormat(p))); }
    else { let v = rh.unwrap(); assert!(v.wf() && v.len() == 4 * n); assert!(v.val() == eh as u128); }
}
