//! Executable forms of the contracts, run against the REAL crate (bva = { path = "/repo" }).
//! Used (a) under Kani as counterexample finder / bounded stand-in, (b) natively to replay a
//! counterexample (`cargo run --bin replay -- <harness> <hex bytes>`).
//! Reference models are written from the property statements (u128 value + length), never from the code.
#![allow(clippy::all, non_snake_case, unused_imports)]
use bva::*;

/// Source of input bytes: symbolic under Kani, recorded bytes when replaying.
pub trait Src {
    fn byte(&mut self) -> u8;
    fn assume(&mut self, c: bool);
    fn u16(&mut self) -> u16 { u16::from_le_bytes([self.byte(), self.byte()]) }
    fn u64(&mut self) -> u64 {
        let mut b = [0u8; 8];
        for x in b.iter_mut() { *x = self.byte(); }
        u64::from_le_bytes(b)
    }
    fn u128(&mut self) -> u128 { (self.u64() as u128) | ((self.u64() as u128) << 64) }
    /// value in 0..=max (max < 256); a plain remainder so that random bytes are never wasted
    fn upto(&mut self, max: usize) -> usize {
        (self.byte() as usize) % (max + 1)
    }
    fn bit(&mut self) -> Bit { if self.byte() & 1 == 1 { Bit::One } else { Bit::Zero } }
}

#[cfg(kani)]
pub struct KaniSrc;
#[cfg(kani)]
impl Src for KaniSrc {
    fn byte(&mut self) -> u8 { kani::any() }
    fn assume(&mut self, c: bool) { kani::assume(c) }
}

/// panic payload of an unsatisfied assumption during replay
pub struct Vacuous;
/// Replay source; an unsatisfied `assume` makes the run vacuous (reported as such).
pub struct VecSrc { pub bytes: Vec<u8>, pub pos: usize, pub vacuous: bool }
impl VecSrc {
    pub fn new(bytes: Vec<u8>) -> Self { VecSrc { bytes, pos: 0, vacuous: false } }
}
impl Src for VecSrc {
    fn byte(&mut self) -> u8 { let b = *self.bytes.get(self.pos).unwrap_or(&0); self.pos += 1; b }
    fn assume(&mut self, c: bool) { if !c { self.vacuous = true; std::panic::panic_any(Vacuous); } }
}

pub fn mask128(n: usize) -> u128 { if n >= 128 { u128::MAX } else { (1u128 << n) - 1 } }

/// Raw observation of a bit vector through its public low-level API: (value of ALL storage bits up to 128, len, capacity in bits).
pub trait Raw: BitVector {
    fn raw(&self) -> (u128, usize, usize);
    /// representation invariant of DESIGN 3.2: len <= capacity and every storage bit at or beyond len is zero
    fn wf(&self) -> bool { let (v, l, c) = self.raw(); l <= c && (v & !mask128(l)) == 0 }
    /// unsigned value of bits 0..len
    fn val(&self) -> u128 { let (v, l, _) = self.raw(); v & mask128(l) }
    fn gen<S: Src>(s: &mut S) -> Self;
    const KIND: &'static str;
}

macro_rules! raw_bvf { ($t:ty, $n:expr, $bits:expr) => {
    impl Raw for Bvf<$t, $n> {
        fn raw(&self) -> (u128, usize, usize) {
            let (d, l) = self.clone().into_inner();
            let mut v = 0u128;
            let mut i = 0;
            while i < $n { v |= (d[i] as u128) << (i * $bits); i += 1; }
            (v, l, $n * $bits)
        }
        fn gen<S: Src>(s: &mut S) -> Self {
            let l = s.upto($n * $bits);
            let mut d = [0 as $t; $n];
            let mut i = 0;
            let mut v = 0u128;
            while i < $n { v |= (raw_word::<S>(s, $bits) as u128) << (i * $bits); i += 1; }
            v &= mask128(l);
            let mut i = 0;
            while i < $n { d[i] = (v >> (i * $bits)) as $t; i += 1; }
            Bvf::new(d, l)
        }
        const KIND: &'static str = "bvf";
    }
}}
fn raw_word<S: Src>(s: &mut S, bits: usize) -> u128 {
    match bits { 8 => s.byte() as u128, 16 => s.u16() as u128, 128 => s.u128(), _ => s.u64() as u128 }
}
raw_bvf!(u8, 1, 8);
raw_bvf!(u8, 2, 8);
raw_bvf!(u8, 3, 8);
raw_bvf!(u16, 2, 16);
raw_bvf!(u64, 1, 64);
raw_bvf!(u64, 2, 64);
raw_bvf!(u128, 1, 128);
raw_bvf!(u8, 16, 8);      // byte storage spanning a whole u128 chunk (seed C12-d: slice get_int narrow -> u128)

/// Bvd with 0..=2 allocated words and any length up to the allocation (spare capacity included)
impl Raw for Bvd {
    fn raw(&self) -> (u128, usize, usize) {
        let (d, l) = self.clone().into_inner();
        let mut v = 0u128;
        let mut i = 0;
        while i < d.len() && i < 2 { v |= (d[i] as u128) << (i * 64); i += 1; }
        // words beyond the second must be zero for the u128 model to be exact
        let mut extra_zero = true;
        while i < d.len() { if d[i] != 0 { extra_zero = false; } i += 1; }
        (if extra_zero { v } else { u128::MAX }, l, if extra_zero { d.len() * 64 } else { 0 })
    }
    fn gen<S: Src>(s: &mut S) -> Self {
        let words = s.upto(2);
        let l = s.upto(words * 64);
        let v = s.u128() & mask128(l);
        let d: Vec<u64> = (0..words).map(|i| (v >> (i * 64)) as u64).collect();
        Bvd::new(d.into_boxed_slice(), l)
    }
    const KIND: &'static str = "bvd";
}
/// Bv in either storage mode
impl Raw for Bv {
    fn raw(&self) -> (u128, usize, usize) {
        match self { Bv::Fixed(b) => b.raw(), Bv::Dynamic(b) => b.raw() }
    }
    fn gen<S: Src>(s: &mut S) -> Self {
        if s.byte() & 1 == 0 { Bv::Fixed(<Bvf<u64, 2> as Raw>::gen(s)) } else { Bv::Dynamic(<Bvd as Raw>::gen(s)) }
    }
    const KIND: &'static str = "bv";
}

pub fn bitval(b: Bit) -> u128 { match b { Bit::Zero => 0, Bit::One => 1 } }

pub mod harness;
pub use harness::*;
pub mod harness2;
pub use harness2::*;
pub mod registry;
#[cfg(kani)]
mod std_assumptions;
pub use registry::*;
