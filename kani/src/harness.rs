//! Harness functions: executable contracts over `Src`-generated well-formed inputs.
use crate::*;
use bva::*;

pub type F81 = Bvf<u8, 1>;
pub type F82 = Bvf<u8, 2>;
pub type F83 = Bvf<u8, 3>;
pub type F162 = Bvf<u16, 2>;
pub type F641 = Bvf<u64, 1>;
pub type F642 = Bvf<u64, 2>;
pub type F1281 = Bvf<u128, 1>;
pub type F816 = Bvf<u8, 16>;


/// reference-model arithmetic at a given machine width (u32 for the small Kani types, u128 for the 128-bit ones)
macro_rules! model_mod { ($m:ident, $M:ty, $BITS:expr) => {
    pub mod $m {
        pub type M = $M;
        pub const BITS: usize = $BITS;
        pub fn mask(n: usize) -> M { if n >= BITS { M::MAX } else { ((1 as M) << n) - 1 } }
        pub fn of(v: u128) -> M { v as M }
        pub fn shl(v: M, k: usize) -> M { if k >= BITS { 0 } else { v << k } }
        pub fn shr(v: M, k: usize) -> M { if k >= BITS { 0 } else { v >> k } }
    }
}}
model_mod!(m32, u32, 32);
model_mod!(m128, u128, 128);

/// binary operator families for a (lhs type, rhs type) pair
macro_rules! binops { ($mm:ident, $and:ident, $or:ident, $xor:ident, $add:ident, $sub:ident, $mul:ident, $cmp:ident, $A:ty, $B:ty) => {
    pub fn $and<S: Src>(s: &mut S) {
        let a = <$A as Raw>::gen(s); let b = <$B as Raw>::gen(s);
        let (va, la, vb) = ($mm::of(a.val()), a.len(), $mm::of(b.val()));
        let mut r = a.clone(); r &= &b;
        assert!(r.wf()); assert!(r.len() == la); assert!($mm::of(r.val()) == (va & vb) & $mm::mask(la));
    }
    pub fn $or<S: Src>(s: &mut S) {
        let a = <$A as Raw>::gen(s); let b = <$B as Raw>::gen(s);
        let (va, la, vb) = ($mm::of(a.val()), a.len(), $mm::of(b.val()));
        let mut r = a.clone(); r |= &b;
        assert!(r.wf()); assert!(r.len() == la); assert!($mm::of(r.val()) == (va | vb) & $mm::mask(la));
    }
    pub fn $xor<S: Src>(s: &mut S) {
        let a = <$A as Raw>::gen(s); let b = <$B as Raw>::gen(s);
        let (va, la, vb) = ($mm::of(a.val()), a.len(), $mm::of(b.val()));
        let mut r = a.clone(); r ^= &b;
        assert!(r.wf()); assert!(r.len() == la); assert!($mm::of(r.val()) == (va ^ vb) & $mm::mask(la));
    }
    pub fn $add<S: Src>(s: &mut S) {
        let a = <$A as Raw>::gen(s); let b = <$B as Raw>::gen(s);
        let (va, la, vb) = ($mm::of(a.val()), a.len(), $mm::of(b.val()));
        let mut r = a.clone(); r += &b;
        assert!(r.wf()); assert!(r.len() == la); assert!($mm::of(r.val()) == va.wrapping_add(vb) & $mm::mask(la));
    }
    pub fn $sub<S: Src>(s: &mut S) {
        let a = <$A as Raw>::gen(s); let b = <$B as Raw>::gen(s);
        let (va, la, vb) = ($mm::of(a.val()), a.len(), $mm::of(b.val()));
        let mut r = a.clone(); r -= &b;
        assert!(r.wf()); assert!(r.len() == la); assert!($mm::of(r.val()) == va.wrapping_sub(vb) & $mm::mask(la));
    }
    pub fn $mul<S: Src>(s: &mut S) {
        let a = <$A as Raw>::gen(s); let b = <$B as Raw>::gen(s);
        let (va, la, vb) = ($mm::of(a.val()), a.len(), $mm::of(b.val()));
        let r = &a * &b;
        assert!(r.wf()); assert!(r.len() == la); assert!($mm::of(r.val()) == va.wrapping_mul(vb) & $mm::mask(la));
    }
    pub fn $cmp<S: Src>(s: &mut S) {
        let a = <$A as Raw>::gen(s); let b = <$B as Raw>::gen(s);
        let (va, vb) = ($mm::of(a.val()), $mm::of(b.val()));
        assert!((a == b) == (va == vb));
        assert!(a.partial_cmp(&b) == Some(va.cmp(&vb)));
        assert!((a < b) == (va < vb)); assert!((a >= b) == (va >= vb));
    }
}}
binops!(m32, and__f82_f82, or__f82_f82, xor__f82_f82, add__f82_f82, sub__f82_f82, mul__f82_f82, cmp__f82_f82, F82, F82);
binops!(m32, and__f82_f162, or__f82_f162, xor__f82_f162, add__f82_f162, sub__f82_f162, mul__f82_f162, cmp__f82_f162, F82, F162);
binops!(m32, and__f162_f83, or__f162_f83, xor__f162_f83, add__f162_f83, sub__f162_f83, mul__f162_f83, cmp__f162_f83, F162, F83);
binops!(m32, and__f83_f81, or__f83_f81, xor__f83_f81, add__f83_f81, sub__f83_f81, mul__f83_f81, cmp__f83_f81, F83, F81);
binops!(m128, and__f642_f641, or__f642_f641, xor__f642_f641, add__f642_f641, sub__f642_f641, mul__f642_f641, cmp__f642_f641, F642, F641);
binops!(m128, and__f82_bvd, or__f82_bvd, xor__f82_bvd, add__f82_bvd, sub__f82_bvd, mul__f82_bvd, cmp__f82_bvd, F82, Bvd);
binops!(m128, and__bvd_bvd, or__bvd_bvd, xor__bvd_bvd, add__bvd_bvd, sub__bvd_bvd, mul__bvd_bvd, cmp__bvd_bvd, Bvd, Bvd);
binops!(m128, and__bvd_f82, or__bvd_f82, xor__bvd_f82, add__bvd_f82, sub__bvd_f82, mul__bvd_f82, cmp__bvd_f82, Bvd, F82);
binops!(m128, and__bvd_f642, or__bvd_f642, xor__bvd_f642, add__bvd_f642, sub__bvd_f642, mul__bvd_f642, cmp__bvd_f642, Bvd, F642);
binops!(m128, and__bvd_f1281, or__bvd_f1281, xor__bvd_f1281, add__bvd_f1281, sub__bvd_f1281, mul__bvd_f1281, cmp__bvd_f1281, Bvd, F1281);
binops!(m128, and__f1281_bvd, or__f1281_bvd, xor__f1281_bvd, add__f1281_bvd, sub__f1281_bvd, mul__f1281_bvd, cmp__f1281_bvd, F1281, Bvd);
binops!(m128, and__f1281_f816, or__f1281_f816, xor__f1281_f816, add__f1281_f816, sub__f1281_f816, mul__f1281_f816, cmp__f1281_f816, F1281, F816);
binops!(m128, and__f1281_f642, or__f1281_f642, xor__f1281_f642, add__f1281_f642, sub__f1281_f642, mul__f1281_f642, cmp__f1281_f642, F1281, F642);
binops!(m128, and__bv_f1281, or__bv_f1281, xor__bv_f1281, add__bv_f1281, sub__bv_f1281, mul__bv_f1281, cmp__bv_f1281, Bv, F1281);
binops!(m128, and__bv_bv, or__bv_bv, xor__bv_bv, add__bv_bv, sub__bv_bv, mul__bv_bv, cmp__bv_bv, Bv, Bv);

/// shift amounts: small, small + 2^32, small + 2^64 (does not fit usize), or arbitrary
pub fn shift_amount<S: Src>(s: &mut S) -> u128 {
    let small = s.upto(140) as u128;
    match s.upto(3) { 0 => small, 1 => small + (1u128 << 32), 2 => small + (1u128 << 64), _ => s.u128() }
}

/// unary / single-vector families
macro_rules! unops { ($mm:ident, $shl:ident, $shr:ident, $shlin:ident, $shrin:ident, $rot:ident, $cnt:ident, $edit:ident, $slice:ident, $not:ident, $A:ty) => {
    pub fn $shl<S: Src>(s: &mut S) {
        let a = <$A as Raw>::gen(s); let k = shift_amount(s);
        let (va, la) = ($mm::of(a.val()), a.len());
        let r = a.clone() << k;
        let e = if k >= 128 { 0 } else { $mm::shl(va, k as usize) & $mm::mask(la) };
        assert!(r.wf()); assert!(r.len() == la); assert!($mm::of(r.val()) == e);
        // the borrowed form has its own body for the dynamic type
        let rb = &a << k;
        assert!(rb.wf()); assert!(rb.len() == la); assert!($mm::of(rb.val()) == e);
        { let mut t = a.clone(); t <<= k; assert!(t.wf() && t.len() == la && $mm::of(t.val()) == e); }
        let k8 = (k & 0xff) as u8;
        let r8 = a.clone() << k8;
        assert!(r8.wf()); assert!($mm::of(r8.val()) == $mm::shl(va, k8 as usize) & $mm::mask(la));
    }
    pub fn $shr<S: Src>(s: &mut S) {
        let a = <$A as Raw>::gen(s); let k = shift_amount(s);
        let (va, la) = ($mm::of(a.val()), a.len());
        let r = a.clone() >> k;
        let e = if k >= 128 { 0 } else { $mm::shr(va, k as usize) };
        assert!(r.wf()); assert!(r.len() == la); assert!($mm::of(r.val()) == e);
        let rb = &a >> k;
        assert!(rb.wf()); assert!(rb.len() == la); assert!($mm::of(rb.val()) == e);
        { let mut t = a.clone(); t >>= k; assert!(t.wf() && t.len() == la && $mm::of(t.val()) == e); }
        let k64 = (k & 0xff) as u64;
        let r64 = a.clone() >> k64;
        assert!(r64.wf()); assert!($mm::of(r64.val()) == $mm::shr(va, k64 as usize));
    }
    pub fn $shlin<S: Src>(s: &mut S) {
        let a = <$A as Raw>::gen(s); let b = s.bit();
        let (va, la) = ($mm::of(a.val()), a.len());
        let mut r = a.clone();
        let out = r.shl_in(b);
        assert!(r.wf()); assert!(r.len() == la);
        if la == 0 { assert!(out == b); } else {
            assert!($mm::of(bitval(out)) == $mm::shr(va, la - 1) & 1);
            assert!($mm::of(r.val()) == ($mm::shl(va, 1) | $mm::of(bitval(b))) & $mm::mask(la));
        }
    }
    pub fn $shrin<S: Src>(s: &mut S) {
        let a = <$A as Raw>::gen(s); let b = s.bit();
        let (va, la) = ($mm::of(a.val()), a.len());
        let mut r = a.clone();
        let out = r.shr_in(b);
        assert!(r.wf()); assert!(r.len() == la);
        if la == 0 { assert!(out == b); } else {
            assert!($mm::of(bitval(out)) == va & 1);
            assert!($mm::of(r.val()) == $mm::shr(va, 1) | $mm::shl($mm::of(bitval(b)), la - 1));
        }
    }
    pub fn $rot<S: Src>(s: &mut S) {
        let a = <$A as Raw>::gen(s);
        let (va, la) = ($mm::of(a.val()), a.len());
        let k = s.upto(128);
        s.assume(k <= la);
        let mut l = a.clone(); l.rotl(k);
        let mut r = a.clone(); r.rotr(k);
        assert!(l.wf() && r.wf()); assert!(l.len() == la && r.len() == la);
        if la > 0 {
            let el = ($mm::shl(va, k) | $mm::shr(va, la - k)) & $mm::mask(la);
            let er = ($mm::shr(va, k) | $mm::shl(va, la - k)) & $mm::mask(la);
            assert!($mm::of(l.val()) == el); assert!($mm::of(r.val()) == er);
        }
    }
    pub fn $cnt<S: Src>(s: &mut S) {
        let a = <$A as Raw>::gen(s);
        let (va, la) = ($mm::of(a.val()), a.len());
        // run lengths straight from the definition (bit loops; la is at most 128)
        let mut lz = 0; while lz < la && $mm::shr(va, la - 1 - lz) & 1 == 0 { lz += 1; }
        let mut lo = 0; while lo < la && $mm::shr(va, la - 1 - lo) & 1 == 1 { lo += 1; }
        let mut tz = 0; while tz < la && $mm::shr(va, tz) & 1 == 0 { tz += 1; }
        let mut to = 0; while to < la && $mm::shr(va, to) & 1 == 1 { to += 1; }
        assert!(a.leading_zeros() == lz); assert!(a.leading_ones() == lo);
        assert!(a.trailing_zeros() == tz); assert!(a.trailing_ones() == to);
        assert!(a.significant_bits() == la - lz);
        assert!(a.is_zero() == (va == 0));
    }
    pub fn $edit<S: Src>(s: &mut S) {
        let a = <$A as Raw>::gen(s);
        let (va, la, cap) = ($mm::of(a.val()), a.len(), a.capacity());
        let fixed = <$A as Raw>::KIND == "bvf";
        let n = s.upto($mm::BITS); let b = s.bit();
        s.assume(!fixed || n <= cap);
        let mut r = a.clone(); r.resize(n, b);
        let fill = if bitval(b) == 1 && n > la { $mm::mask(n) & !$mm::mask(la) } else { 0 };
        assert!(r.wf()); assert!(r.len() == n); assert!($mm::of(r.val()) == (va & $mm::mask(n)) | fill);
        // shrink then grow exposes only fill bits
        let mut t = a.clone(); t.truncate(n); t.resize(la, Bit::Zero);
        assert!(t.wf()); assert!($mm::of(t.val()) == va & $mm::mask(n));
        let mut u = a.clone(); u.truncate(n); u.sign_extend(la);
        assert!(u.wf());
        if n < la && n > 0 {
            let sign = $mm::shr(va, n - 1) & 1;
            assert!($mm::of(u.val()) == (va & $mm::mask(n)) | (if sign == 1 { $mm::mask(la) & !$mm::mask(n) } else { 0 }));
        }
        // push / pop
        if (!fixed || la < cap) && la < $mm::BITS {
            let mut p = a.clone(); p.push(b);
            assert!(p.wf()); assert!(p.len() == la + 1); assert!($mm::of(p.val()) == va | $mm::shl($mm::of(bitval(b)), la));
            assert!(p.pop() == Some(b)); assert!(p.wf()); assert!($mm::of(p.val()) == va && p.len() == la);
        }
        if la > 0 {
            let i = s.upto($mm::BITS - 1); s.assume(i < la);
            let mut q = a.clone(); q.set(i, b);
            assert!(q.wf()); assert!($mm::of(q.val()) == (va & !$mm::shl(1, i)) | $mm::shl($mm::of(bitval(b)), i));
            assert!($mm::of(bitval(a.get(i))) == $mm::shr(va, i) & 1);
        }
    }
    pub fn $slice<S: Src>(s: &mut S) {
        let a = <$A as Raw>::gen(s);
        let (va, la) = ($mm::of(a.val()), a.len());
        let st = s.upto($mm::BITS); let en = s.upto($mm::BITS);
        s.assume(st <= en && en <= la);
        let r = a.copy_range(st..en);
        assert!(r.wf()); assert!(r.len() == en - st);
        assert!($mm::of(r.val()) == $mm::shr(va, st) & $mm::mask(en - st));
        let mut lo = a.clone();
        let hi = lo.split_off(st);
        assert!(lo.wf() && hi.wf()); assert!(lo.len() == st && hi.len() == la - st);
        assert!($mm::of(lo.val()) == va & $mm::mask(st));
        assert!($mm::of(hi.val()) == $mm::shr(va, st));
        assert!(a.first() == if la == 0 { None } else { Some(if va & 1 == 1 { Bit::One } else { Bit::Zero }) });
        assert!(a.last() == if la == 0 { None } else { Some(if $mm::shr(va, la - 1) & 1 == 1 { Bit::One } else { Bit::Zero }) });
    }
    pub fn $not<S: Src>(s: &mut S) {
        let a = <$A as Raw>::gen(s);
        let (va, la) = ($mm::of(a.val()), a.len());
        let r = !&a;
        assert!(r.wf()); assert!(r.len() == la); assert!($mm::of(r.val()) == !va & $mm::mask(la));
        let r2 = !a.clone();
        assert!(r2.wf()); assert!($mm::of(r2.val()) == !va & $mm::mask(la));
    }
}}
unops!(m32, shl__f82, shr__f82, shlin__f82, shrin__f82, rot__f82, cnt__f82, edit__f82, slice__f82, not__f82, F82);
unops!(m32, shl__f83, shr__f83, shlin__f83, shrin__f83, rot__f83, cnt__f83, edit__f83, slice__f83, not__f83, F83);
unops!(m32, shl__f162, shr__f162, shlin__f162, shrin__f162, rot__f162, cnt__f162, edit__f162, slice__f162, not__f162, F162);
unops!(m128, shl__f642, shr__f642, shlin__f642, shrin__f642, rot__f642, cnt__f642, edit__f642, slice__f642, not__f642, F642);
unops!(m128, shl__f1281, shr__f1281, shlin__f1281, shrin__f1281, rot__f1281, cnt__f1281, edit__f1281, slice__f1281, not__f1281, F1281);
unops!(m128, shl__bvd, shr__bvd, shlin__bvd, shrin__bvd, rot__bvd, cnt__bvd, edit__bvd, slice__bvd, not__bvd, Bvd);
unops!(m128, shl__bv, shr__bv, shlin__bv, shrin__bv, rot__bv, cnt__bv, edit__bv, slice__bv, not__bv, Bv);

