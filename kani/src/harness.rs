//! Harness functions: executable contracts over `Src`-generated well-formed inputs.
use crate::*;
use bva::*;

pub type F81 = Bvf<u8, 1>;
pub type F82 = Bvf<u8, 2>;
pub type F83 = Bvf<u8, 3>;
pub type F162 = Bvf<u16, 2>;
pub type F641 = Bvf<u64, 1>;
pub type F642 = Bvf<u64, 2>;

fn wrap_sub(a: u128, b: u128, n: usize) -> u128 { a.wrapping_sub(b) & mask128(n) }
fn wrap_add(a: u128, b: u128, n: usize) -> u128 { a.wrapping_add(b) & mask128(n) }
fn wrap_mul(a: u128, b: u128, n: usize) -> u128 { a.wrapping_mul(b) & mask128(n) }

/// binary operator families for a (lhs type, rhs type) pair
macro_rules! binops { ($and:ident, $or:ident, $xor:ident, $add:ident, $sub:ident, $mul:ident, $cmp:ident, $A:ty, $B:ty) => {
    pub fn $and<S: Src>(s: &mut S) {
        let a = <$A as Raw>::gen(s); let b = <$B as Raw>::gen(s);
        let (va, la, vb) = (a.val(), a.len(), b.val());
        let mut r = a.clone(); r &= &b;
        assert!(r.wf()); assert!(r.len() == la); assert!(r.val() == (va & vb) & mask128(la));
    }
    pub fn $or<S: Src>(s: &mut S) {
        let a = <$A as Raw>::gen(s); let b = <$B as Raw>::gen(s);
        let (va, la, vb) = (a.val(), a.len(), b.val());
        let mut r = a.clone(); r |= &b;
        assert!(r.wf()); assert!(r.len() == la); assert!(r.val() == (va | vb) & mask128(la));
    }
    pub fn $xor<S: Src>(s: &mut S) {
        let a = <$A as Raw>::gen(s); let b = <$B as Raw>::gen(s);
        let (va, la, vb) = (a.val(), a.len(), b.val());
        let mut r = a.clone(); r ^= &b;
        assert!(r.wf()); assert!(r.len() == la); assert!(r.val() == (va ^ vb) & mask128(la));
    }
    pub fn $add<S: Src>(s: &mut S) {
        let a = <$A as Raw>::gen(s); let b = <$B as Raw>::gen(s);
        let (va, la, vb) = (a.val(), a.len(), b.val());
        let mut r = a.clone(); r += &b;
        assert!(r.wf()); assert!(r.len() == la); assert!(r.val() == wrap_add(va, vb, la));
    }
    pub fn $sub<S: Src>(s: &mut S) {
        let a = <$A as Raw>::gen(s); let b = <$B as Raw>::gen(s);
        let (va, la, vb) = (a.val(), a.len(), b.val());
        let mut r = a.clone(); r -= &b;
        assert!(r.wf()); assert!(r.len() == la); assert!(r.val() == wrap_sub(va, vb, la));
    }
    pub fn $mul<S: Src>(s: &mut S) {
        let a = <$A as Raw>::gen(s); let b = <$B as Raw>::gen(s);
        let (va, la, vb) = (a.val(), a.len(), b.val());
        let r = &a * &b;
        assert!(r.wf()); assert!(r.len() == la); assert!(r.val() == wrap_mul(va, vb, la));
    }
    pub fn $cmp<S: Src>(s: &mut S) {
        let a = <$A as Raw>::gen(s); let b = <$B as Raw>::gen(s);
        let (va, vb) = (a.val(), b.val());
        assert!((a == b) == (va == vb));
        assert!(a.partial_cmp(&b) == Some(va.cmp(&vb)));
        assert!((a < b) == (va < vb)); assert!((a >= b) == (va >= vb));
    }
}}
binops!(and__f82_f82, or__f82_f82, xor__f82_f82, add__f82_f82, sub__f82_f82, mul__f82_f82, cmp__f82_f82, F82, F82);
binops!(and__f82_f162, or__f82_f162, xor__f82_f162, add__f82_f162, sub__f82_f162, mul__f82_f162, cmp__f82_f162, F82, F162);
binops!(and__f162_f83, or__f162_f83, xor__f162_f83, add__f162_f83, sub__f162_f83, mul__f162_f83, cmp__f162_f83, F162, F83);
binops!(and__f82_bvd, or__f82_bvd, xor__f82_bvd, add__f82_bvd, sub__f82_bvd, mul__f82_bvd, cmp__f82_bvd, F82, Bvd);
binops!(and__bvd_bvd, or__bvd_bvd, xor__bvd_bvd, add__bvd_bvd, sub__bvd_bvd, mul__bvd_bvd, cmp__bvd_bvd, Bvd, Bvd);
binops!(and__bvd_f82, or__bvd_f82, xor__bvd_f82, add__bvd_f82, sub__bvd_f82, mul__bvd_f82, cmp__bvd_f82, Bvd, F82);
binops!(and__bvd_f642, or__bvd_f642, xor__bvd_f642, add__bvd_f642, sub__bvd_f642, mul__bvd_f642, cmp__bvd_f642, Bvd, F642);
binops!(and__bv_bv, or__bv_bv, xor__bv_bv, add__bv_bv, sub__bv_bv, mul__bv_bv, cmp__bv_bv, Bv, Bv);

/// unary / single-vector families
macro_rules! unops { ($shl:ident, $shr:ident, $shlin:ident, $shrin:ident, $rot:ident, $cnt:ident, $edit:ident, $slice:ident, $not:ident, $A:ty) => {
    pub fn $shl<S: Src>(s: &mut S) {
        let a = <$A as Raw>::gen(s); let k = s.u128();
        let (va, la) = (a.val(), a.len());
        let r = a.clone() << k;
        let e = if k >= 128 { 0 } else { (va << (k as u32)) & mask128(la) };
        assert!(r.wf()); assert!(r.len() == la); assert!(r.val() == e);
        let k8 = (k & 0xff) as u8;
        let r8 = a.clone() << k8;
        let e8 = if k8 >= 128 { 0 } else { (va << (k8 as u32)) & mask128(la) };
        assert!(r8.wf()); assert!(r8.val() == e8);
    }
    pub fn $shr<S: Src>(s: &mut S) {
        let a = <$A as Raw>::gen(s); let k = s.u128();
        let (va, la) = (a.val(), a.len());
        let r = a.clone() >> k;
        let e = if k >= 128 { 0 } else { va >> (k as u32) };
        assert!(r.wf()); assert!(r.len() == la); assert!(r.val() == e);
        let k64 = (k & 0xff) as u64;
        let r64 = a.clone() >> k64;
        let e64 = if k64 >= 128 { 0 } else { va >> (k64 as u32) };
        assert!(r64.wf()); assert!(r64.val() == e64);
    }
    pub fn $shlin<S: Src>(s: &mut S) {
        let a = <$A as Raw>::gen(s); let b = s.bit();
        let (va, la) = (a.val(), a.len());
        let mut r = a.clone();
        let out = r.shl_in(b);
        assert!(r.wf()); assert!(r.len() == la);
        if la == 0 { assert!(out == b); } else {
            assert!(bitval(out) == (va >> (la - 1)) & 1);
            assert!(r.val() == ((va << 1) | bitval(b)) & mask128(la));
        }
    }
    pub fn $shrin<S: Src>(s: &mut S) {
        let a = <$A as Raw>::gen(s); let b = s.bit();
        let (va, la) = (a.val(), a.len());
        let mut r = a.clone();
        let out = r.shr_in(b);
        assert!(r.wf()); assert!(r.len() == la);
        if la == 0 { assert!(out == b); } else {
            assert!(bitval(out) == va & 1);
            assert!(r.val() == (va >> 1) | (bitval(b) << (la - 1)));
        }
    }
    pub fn $rot<S: Src>(s: &mut S) {
        let a = <$A as Raw>::gen(s);
        let (va, la) = (a.val(), a.len());
        let k = s.upto(128);
        s.assume(k <= la);
        let mut l = a.clone(); l.rotl(k);
        let mut r = a.clone(); r.rotr(k);
        assert!(l.wf() && r.wf()); assert!(l.len() == la && r.len() == la);
        if la > 0 {
            let el = if k == 0 || k == la { va } else { ((va << k) | (va >> (la - k))) & mask128(la) };
            let er = if k == 0 || k == la { va } else { ((va >> k) | (va << (la - k))) & mask128(la) };
            assert!(l.val() == el); assert!(r.val() == er);
        }
    }
    pub fn $cnt<S: Src>(s: &mut S) {
        let a = <$A as Raw>::gen(s);
        let (va, la) = (a.val(), a.len());
        let lz = if la == 0 { 0 } else { ((va << (128 - la)).leading_zeros() as usize).min(la) };
        let lo = if la == 0 { 0 } else { ((va << (128 - la)).leading_ones() as usize).min(la) };
        let tz = (va.trailing_zeros() as usize).min(la);
        let to = (va.trailing_ones() as usize).min(la);
        assert!(a.leading_zeros() == lz); assert!(a.leading_ones() == lo);
        assert!(a.trailing_zeros() == tz); assert!(a.trailing_ones() == to);
        assert!(a.significant_bits() == la - lz);
        assert!(a.is_zero() == (va == 0));
    }
    pub fn $edit<S: Src>(s: &mut S) {
        let a = <$A as Raw>::gen(s);
        let (va, la, cap) = (a.val(), a.len(), a.capacity());
        let fixed = <$A as Raw>::KIND == "bvf";
        let n = s.upto(128); let b = s.bit();
        s.assume(!fixed || n <= cap);
        let mut r = a.clone(); r.resize(n, b);
        let fill = if bitval(b) == 1 && n > la { mask128(n) & !mask128(la) } else { 0 };
        assert!(r.wf()); assert!(r.len() == n); assert!(r.val() == (va & mask128(n)) | fill);
        // shrink then grow exposes only fill bits
        let mut t = a.clone(); t.truncate(n); t.sign_extend(la);
        assert!(t.wf());
        // push / pop
        if (!fixed || la < cap) && la < 128 {
            let mut p = a.clone(); p.push(b);
            assert!(p.wf()); assert!(p.len() == la + 1); assert!(p.val() == va | (bitval(b) << la));
            assert!(p.pop() == Some(b)); assert!(p.wf()); assert!(p.val() == va && p.len() == la);
        }
        if la > 0 {
            let i = s.upto(127); s.assume(i < la);
            let mut q = a.clone(); q.set(i, b);
            assert!(q.wf()); assert!(q.val() == (va & !(1u128 << i)) | (bitval(b) << i));
            assert!(bitval(a.get(i)) == (va >> i) & 1);
        }
    }
    pub fn $slice<S: Src>(s: &mut S) {
        let a = <$A as Raw>::gen(s);
        let (va, la) = (a.val(), a.len());
        let st = s.upto(128); let en = s.upto(128);
        s.assume(st <= en && en <= la);
        let r = a.copy_range(st..en);
        assert!(r.wf()); assert!(r.len() == en - st);
        assert!(r.val() == if st >= 128 { 0 } else { (va >> st) & mask128(en - st) });
        let mut lo = a.clone();
        let hi = lo.split_off(st);
        assert!(lo.wf() && hi.wf()); assert!(lo.len() == st && hi.len() == la - st);
        assert!(lo.val() == va & mask128(st));
        assert!(hi.val() == if st >= 128 { 0 } else { va >> st });
        assert!(a.first() == if la == 0 { None } else { Some(if va & 1 == 1 { Bit::One } else { Bit::Zero }) });
        assert!(a.last() == if la == 0 { None } else { Some(if (va >> (la - 1)) & 1 == 1 { Bit::One } else { Bit::Zero }) });
    }
    pub fn $not<S: Src>(s: &mut S) {
        let a = <$A as Raw>::gen(s);
        let (va, la) = (a.val(), a.len());
        let r = !&a;
        assert!(r.wf()); assert!(r.len() == la); assert!(r.val() == !va & mask128(la));
        let r2 = !a.clone();
        assert!(r2.wf()); assert!(r2.val() == !va & mask128(la));
    }
}}
unops!(shl__f82, shr__f82, shlin__f82, shrin__f82, rot__f82, cnt__f82, edit__f82, slice__f82, not__f82, F82);
unops!(shl__f83, shr__f83, shlin__f83, shrin__f83, rot__f83, cnt__f83, edit__f83, slice__f83, not__f83, F83);
unops!(shl__f162, shr__f162, shlin__f162, shrin__f162, rot__f162, cnt__f162, edit__f162, slice__f162, not__f162, F162);
unops!(shl__f642, shr__f642, shlin__f642, shrin__f642, rot__f642, cnt__f642, edit__f642, slice__f642, not__f642, F642);
unops!(shl__bvd, shr__bvd, shlin__bvd, shrin__bvd, rot__bvd, cnt__bvd, edit__bvd, slice__bvd, not__bvd, Bvd);
unops!(shl__bv, shr__bv, shlin__bv, shrin__bv, rot__bv, cnt__bv, edit__bv, slice__bv, not__bv, Bv);

/// name -> harness, for native replay; the same list drives the Kani proof declarations
macro_rules! registry { ($($name:ident),* $(,)?) => {
    pub const HARNESSES: &[&str] = &[$(stringify!($name)),*];
    pub fn run_named(name: &str, s: &mut VecSrc) -> bool {
        match name { $(stringify!($name) => { $name(s); true })* _ => false }
    }
    #[cfg(kani)]
    mod proofs {
        use super::*;
        $( #[kani::proof] #[kani::unwind(20)] fn $name() { super::$name(&mut KaniSrc) } )*
    }
}}
registry!(
    and__f82_f82, or__f82_f82, xor__f82_f82, add__f82_f82, sub__f82_f82, mul__f82_f82, cmp__f82_f82,
    and__f82_f162, or__f82_f162, xor__f82_f162, add__f82_f162, sub__f82_f162, mul__f82_f162, cmp__f82_f162,
    and__f162_f83, or__f162_f83, xor__f162_f83, add__f162_f83, sub__f162_f83, mul__f162_f83, cmp__f162_f83,
    and__f82_bvd, or__f82_bvd, xor__f82_bvd, add__f82_bvd, sub__f82_bvd, mul__f82_bvd, cmp__f82_bvd,
    and__bvd_bvd, or__bvd_bvd, xor__bvd_bvd, add__bvd_bvd, sub__bvd_bvd, mul__bvd_bvd, cmp__bvd_bvd,
    and__bvd_f82, or__bvd_f82, xor__bvd_f82, add__bvd_f82, sub__bvd_f82, mul__bvd_f82, cmp__bvd_f82,
    and__bvd_f642, or__bvd_f642, xor__bvd_f642, add__bvd_f642, sub__bvd_f642, mul__bvd_f642, cmp__bvd_f642,
    and__bv_bv, or__bv_bv, xor__bv_bv, add__bv_bv, sub__bv_bv, mul__bv_bv, cmp__bv_bv,
    shl__f82, shr__f82, shlin__f82, shrin__f82, rot__f82, cnt__f82, edit__f82, slice__f82, not__f82,
    shl__f83, shr__f83, shlin__f83, shrin__f83, rot__f83, cnt__f83, edit__f83, slice__f83, not__f83,
    shl__f162, shr__f162, shlin__f162, shrin__f162, rot__f162, cnt__f162, edit__f162, slice__f162, not__f162,
    shl__f642, shr__f642, shlin__f642, shrin__f642, rot__f642, cnt__f642, edit__f642, slice__f642, not__f642,
    shl__bvd, shr__bvd, shlin__bvd, shrin__bvd, rot__bvd, cnt__bvd, edit__bvd, slice__bvd, not__bvd,
    shl__bv, shr__bv, shlin__bv, shrin__bv, rot__bv, cnt__bv, edit__bv, slice__bv, not__bv,
);
