//! DESIGN 6.4: the finite-domain std contracts that the Verus files ASSUME (`assume_specification` in spec/prelude: T1) restated
//! as loop-free Kani harnesses over the full domain of the real std function. Each assertion is the `ensures` clause of the
//! assumed contract, written with a wider integer type for the mathematical value. A harness that verifies is a complete proof of
//! that assumption for this toolchain's std; it says nothing about bva and never influences a verdict.
#![cfg(kani)]

macro_rules! t1_word {
    ($t:ty, $w:ty, $bits:expr, $add:ident, $sub:ident, $shl:ident, $shr:ident) => {
        /// ensures r.0 as int == (a + b) % 2^bits, r.1 == (a + b >= 2^bits)
        #[kani::proof]
        fn $add() {
            let a: $t = kani::any();
            let b: $t = kani::any();
            let pow: $w = (1 as $w) << $bits;
            let s: $w = a as $w + b as $w;
            let r = a.overflowing_add(b);
            assert!(r.0 as $w == s % pow);
            assert!(r.1 == (s >= pow));
        }
        /// ensures r.0 as int == (a - b) % 2^bits (Euclidean), r.1 == (a < b)
        #[kani::proof]
        fn $sub() {
            let a: $t = kani::any();
            let b: $t = kani::any();
            let pow: $w = (1 as $w) << $bits;
            let d: $w = if a >= b { a as $w - b as $w } else { pow + a as $w - b as $w };
            let r = a.overflowing_sub(b);
            assert!(r.0 as $w == d);
            assert!(r.1 == (a < b));
        }
        /// ensures s < bits ==> r == Some(a << s), s >= bits ==> r is None
        #[kani::proof]
        fn $shl() {
            let a: $t = kani::any();
            let s: u32 = kani::any();
            let r = a.checked_shl(s);
            if s < $bits { assert!(r == Some((((a as $w) << s) % ((1 as $w) << $bits)) as $t)); } else { assert!(r.is_none()); }
        }
        /// ensures s < bits ==> r == Some(a >> s), s >= bits ==> r is None
        #[kani::proof]
        fn $shr() {
            let a: $t = kani::any();
            let s: u32 = kani::any();
            let r = a.checked_shr(s);
            if s < $bits { assert!(r == Some(((a as $w) >> s) as $t)); } else { assert!(r.is_none()); }
        }
    };
}
t1_word!(u8, u32, 8, t1_overflowing_add_u8, t1_overflowing_sub_u8, t1_checked_shl_u8, t1_checked_shr_u8);
t1_word!(u16, u32, 16, t1_overflowing_add_u16, t1_overflowing_sub_u16, t1_checked_shl_u16, t1_checked_shr_u16);
t1_word!(u32, u64, 32, t1_overflowing_add_u32, t1_overflowing_sub_u32, t1_checked_shl_u32, t1_checked_shr_u32);
t1_word!(u64, u128, 64, t1_overflowing_add_u64, t1_overflowing_sub_u64, t1_checked_shl_u64, t1_checked_shr_u64);
t1_word!(usize, u128, 64, t1_overflowing_add_usize, t1_overflowing_sub_usize, t1_checked_shl_usize, t1_checked_shr_usize);

/// ensures r == rev(o)
#[kani::proof]
fn t1_ordering_reverse() {
    use core::cmp::Ordering::*;
    assert!(Less.reverse() == Greater && Equal.reverse() == Equal && Greater.reverse() == Less);
}

// u128 has no wider native type: the same two clauses written without leaving u128
// (a + b >= 2^128  <=>  a > MAX - b;  (a + b) % 2^128 == a - (MAX - b) - 1 in that case;  (a - b) % 2^128 == MAX - (b - a) + 1 when a < b)
#[kani::proof]
fn t1_overflowing_add_u128() {
    let a: u128 = kani::any();
    let b: u128 = kani::any();
    let r = a.overflowing_add(b);
    let over = a > u128::MAX - b;
    assert!(r.1 == over);
    assert!(r.0 == if over { a - (u128::MAX - b) - 1 } else { a + b });
}
#[kani::proof]
fn t1_overflowing_sub_u128() {
    let a: u128 = kani::any();
    let b: u128 = kani::any();
    let r = a.overflowing_sub(b);
    assert!(r.1 == (a < b));
    assert!(r.0 == if a < b { u128::MAX - (b - a) + 1 } else { a - b });
}
#[kani::proof]
fn t1_checked_shl_u128() {
    let a: u128 = kani::any();
    let s: u32 = kani::any();
    let r = a.checked_shl(s);
    if s < 128 { assert!(r == Some(a << s)); } else { assert!(r.is_none()); }
}
#[kani::proof]
fn t1_checked_shr_u128() {
    let a: u128 = kani::any();
    let s: u32 = kani::any();
    let r = a.checked_shr(s);
    if s < 128 { assert!(r == Some(a >> s)); } else { assert!(r.is_none()); }
}
