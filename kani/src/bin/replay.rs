//! Native replay of a recorded counterexample on the real crate:  replay <harness> <hex bytes>
use bva_kani::*;
fn main() {
    let args: Vec<String> = std::env::args().collect();
    if args.len() < 3 { eprintln!("usage: replay <harness> <hexbytes> | replay --list"); std::process::exit(2); }
    if args[1] == "--fuzz" {
        // replay --fuzz <harness|all> <runs> <seed>: random (non-vacuous) inputs through the executable contracts
        let runs: u64 = args[3].parse().unwrap();
        let mut seed: u64 = args.get(4).map(|s| s.parse().unwrap()).unwrap_or(1);
        let names: Vec<&str> = if args[2] == "all" { HARNESSES.to_vec() } else { vec![args[2].as_str()] };
        let mut failed = 0;
        let trace = std::env::var("VERIF_FUZZ_TRACE").ok();
        std::panic::set_hook(Box::new(|_| {}));
        for name in names {
            let mut nonvac = 0u64;
            for run_no in 0..runs {
                let mut bytes = Vec::with_capacity(96);
                // two generators, alternating: (even runs) independent bytes biased towards boundary values;
                // (odd runs) RUNS of 1..16 equal-class bytes (all 0x00 / all 0xff / random / repeated previous word),
                // so that whole words are 0, MAX or equal to the other operand's word with useful probability
                // (carry/borrow chains, equal-word comparisons)
                let runmode = run_no % 2 == 1;
                let (mut left, mut class) = (0u32, 0u64);
                for k in 0..96usize { seed ^= seed << 13; seed ^= seed >> 7; seed ^= seed << 17; let b = (seed >> 24) as u8;
                    if !runmode {
                        bytes.push(match (seed >> 40) % 8 { 0 => 0, 1 => 0xff, 2 => (b % 130), _ => b });
                    } else {
                        if left == 0 { class = (seed >> 33) % 6; left = [1u32, 2, 4, 8, 8, 16, 3, 7][((seed >> 45) % 8) as usize]; }
                        left -= 1;
                        bytes.push(match class { 0 => 0, 1 => 0xff, 2 if k >= 8 => bytes[k - 8], 3 if k >= 16 => bytes[k - 16], 4 => b % 130, _ => b });
                    }
                }
                // when asked (second pass after an abnormal exit: abort, stack overflow, allocation failure), record the
                // input about to be run so that the parent can recover the one that killed the process
                if let Some(path) = &trace {
                    let hex: String = bytes.iter().map(|b| format!("{:02x}", b)).collect();
                    let _ = std::fs::write(path, format!("{} {}", name, hex));
                }
                let mut src = VecSrc::new(bytes.clone());
                let n2 = name.to_string();
                let res = std::panic::catch_unwind(std::panic::AssertUnwindSafe(|| { run_named(&n2, &mut src); src.vacuous }));
                match res {
                    Ok(true) => {}
                    Ok(false) => nonvac += 1,
                    Err(e) if e.is::<Vacuous>() => {}
                    Err(_) => {
                        let hex: String = bytes.iter().map(|b| format!("{:02x}", b)).collect();
                        println!("FAIL {} {}", name, hex); failed += 1; break;
                    }
                }
            }
            if failed == 0 { println!("ok {} nonvacuous={}", name, nonvac); }
        }
        std::process::exit(if failed > 0 { 1 } else { 0 });
    }
    let name = &args[1];
    let hex = &args[2];
    let bytes: Vec<u8> = (0..hex.len() / 2).map(|i| u8::from_str_radix(&hex[2 * i..2 * i + 2], 16).unwrap()).collect();
    let mut src = VecSrc::new(bytes);
    let name2 = name.clone();
    let res = std::panic::catch_unwind(std::panic::AssertUnwindSafe(|| { let ok = run_named(&name2, &mut src); (ok, src.vacuous) }));
    match res {
        Ok((false, _)) => { println!("UNKNOWN-HARNESS {}", name); std::process::exit(2); }
        Ok((true, true)) => { println!("VACUOUS {} (recorded input violates an assumption)", name); std::process::exit(3); }
        Ok((true, false)) => { println!("PASS {} (contract holds on this input)", name); std::process::exit(0); }
        Err(e) if e.is::<Vacuous>() => { println!("VACUOUS {} (recorded input violates an assumption)", name); std::process::exit(3); }
        Err(_) => { println!("FAIL {} (contract violated on the real code by this input)", name); std::process::exit(1); }
    }
}
