#!/usr/bin/env python3
"""tools/pinloops.py: record, for every unit that carries loop contracts, the token text of its loop headers in /repo's CURRENT source
(spec/loopheads.json). The weaver compares them on every run: a loop whose header changed (`while i > 0` -> `for j in (0..i).rev()`) is a
lost anchor (undecided), not a failed invariant. Developer tool: run it on the unchanged tree after writing or changing a unit; the
file is committed and never written by a check."""
import json, os, sys
ROOT = os.path.dirname(os.path.dirname(os.path.abspath(__file__)))
sys.path.insert(0, os.path.join(ROOT, "engine")); sys.path.insert(0, os.path.join(ROOT, "spec"))
import expandsrc, index, units, weave, assemble, plan

def main():
    pins = os.path.join(ROOT, "spec", "loopheads.json")
    if os.path.exists(pins):
        os.remove(pins)          # generate from scratch: no pin is consulted while pinning
    weave._PINS = {}
    import tempfile, shutil
    os.environ.setdefault("VERIF_CACHE", "/tmp/bva-verif-cache")
    scratch = tempfile.mkdtemp(prefix="pinloops-")
    us = units.load_all(os.path.join(ROOT, "spec", "units"))
    src = expandsrc.expand("dev", scratch)
    idx = index.Index(open(src).read())
    wv = weave.Weaver(idx, "dev")
    seen = set()
    for p in sorted(plan.PROPS):
        for tier in ("quick", "thorough"):
            for (g, ctx) in plan.PROPS[p].get(tier, []):
                key = (g, tuple(sorted(ctx.items())))
                if key in seen:
                    continue
                seen.add(key)
                grp = assemble.resolve(plan.GROUPS[g], ctx)
                try:
                    assemble.assemble(wv, us, grp, ctx, os.path.join(ROOT, "spec", "prelude"), mode="verify", features=grp.get("features", ""))
                except Exception as e:
                    print("skip %s %s: %s" % (g, ctx, str(e)[:100]))
    out = {}
    for name, variants in sorted(wv.seen_heads.items()):
        u = us[name]
        if u.loops:
            out[name] = sorted([list(v) for v in variants])
    shutil.rmtree(scratch, ignore_errors=True)
    json.dump(out, open(pins, "w"), indent=0, sort_keys=True)
    print("pinned %d units (%d jobs)" % (len(out), len(seen)))
main()
