#!/bin/bash
# tryseed.sh <patch file> <PROP>...: apply a seeded change to /repo's working tree, run the quick checks, undo it straight afterwards
patch=$1; shift
trap 'git -C /repo checkout -- . 2>/dev/null' EXIT INT TERM
cd /repo && git apply "$patch" || exit 2
cd /verif
for p in "$@"; do
  # evidence of a run against a seeded change goes to a scratch directory: the committed evidence describes the unchanged tree
  out=$(VERIF_EVIDENCE_DIR=/tmp/bva-seed-evidence VERIF_CACHE=/tmp/bva-verif-cache timeout 1500 bin/check $p 2>/dev/null); rc=$?
  echo "[$p] rc=$rc $(echo "$out" | grep -c '^VIOLATION') violation line(s), $(echo "$out" | grep -c '^UNDECIDED') undecided"
  echo "$out" | grep "^VIOLATION" | head -3
done
git -C /repo checkout -- .
