#!/bin/bash
# kill every verification process left behind (patterns written so that they do not match this script's own command line)
for p in '[r]unall.sh' '[b]in/check' '[c]argo-kani' '[k]ani-driver' '[c]bmc' '[r]ust_verify' '[z]3 -smt2' '[s]eedcampaign'; do
  pgrep -f "$p" | xargs -r kill -9
done
