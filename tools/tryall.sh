#!/bin/bash
# run each seeded change against the check of the property it breaks; one line per seed
cd /verif
for d in "$@"; do
  id=$(basename $d); prop=${id%%-*}
  res=$(tools/tryseed.sh $d/patch.diff $prop 2>&1 | tr '\n' ' ')
  echo "$id: $res"
done
