#!/bin/bash
# confirm_seed.sh <PROP> <letter> (OUT_LETTER=<x> stores it as seeded/<PROP>-<x>): confirm a sub-agent's seeded change in its scratch worktree (outside /repo and /verif):
#  (1) full test suite passes with the change, (2) demo fails with it, (3) demo passes without. Writes /verif/seeded/<PROP>-<letter>/
set -u
P=$1; L=$2; W=${SEED_ROOT:-/tmp/seed_}$P; OUT=/verif/seeded/$P-${OUT_LETTER:-$L}
mkdir -p $OUT
cd $W || exit 2
git checkout -q -- src; rm -rf tests; mkdir -p tests
cp SEED/$L.diff $OUT/patch.diff; cp SEED/demo_$L.rs $OUT/demo.rs
git apply SEED/$L.diff || { echo "patch does not apply" > $OUT/confirm.log; exit 2; }
cp SEED/demo_$L.rs tests/seed_demo.rs
export CARGO_NET_OFFLINE=true
( cargo test --offline --lib 2>&1 | grep "test result" ) > $OUT/confirm.log 2>&1
suite=$(grep -c "test result: ok" $OUT/confirm.log)
cargo test --offline --test seed_demo > $OUT/demo_with.log 2>&1; with_rc=$?
git checkout -q -- src
cargo test --offline --test seed_demo > $OUT/demo_without.log 2>&1; without_rc=$?
rm -rf tests
echo "suite_ok_lines=$suite demo_with_change_rc=$with_rc demo_without_change_rc=$without_rc" >> $OUT/confirm.log
tail -3 $OUT/demo_with.log | head -2 >> $OUT/confirm.log
cat $OUT/confirm.log
