#!/bin/bash
# run every registered quick check on the unchanged tree; print one line each
cd /verif
for p in $(python3 -c "
import sys; sys.path.insert(0,'spec'); sys.path.insert(0,'engine'); import plan; print(' '.join(sorted(plan.PROPS)))"); do
  out=$(VERIF_CACHE=/tmp/bva-verif-cache bin/check $p 2>&1); rc=$?
  echo "$p rc=$rc $(echo "$out" | tail -1)"
  [ $rc -ne 0 ] && echo "$out" | grep "^UNDECIDED\|^VIOLATION" | cut -c1-250 | head -5
done
