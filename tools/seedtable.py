#!/usr/bin/env python3
"""markdown table of seeded/RESULTS.json for DESIGN.md section 14"""
import json, os
ROOT = os.path.dirname(os.path.dirname(os.path.abspath(__file__)))
r = json.load(open(os.path.join(ROOT, "seeded", "RESULTS.json")))
print("| seed | property | what it needs to manifest | caught by the proof stage (failed Verus unit) | caught by the second engine (harness with replayed input) | verdict line |")
print("|---|---|---|---|---|---|")
for k in sorted(r):
    v = r[k]
    meta = json.load(open(os.path.join(ROOT, "seeded", k, "meta.json")))
    vu = ", ".join(sorted({u for u in v.get("verus_failed_units", []) if u})) or "-"
    if v.get("failed_obligation_kinds") and vu != "-":
        vu += " (" + ", ".join(v["failed_obligation_kinds"]) + ")"
    cx = ", ".join(sorted(set(v.get("counterexample_harnesses", [])))) or "-"
    verdict = "VIOLATION" + (" ... no-failing-input-found" if v.get("no_failing_input_found") else " + replayed input") if v.get("detected") else "MISSED rc=%s" % v.get("rc")
    if v.get("undecided"):
        verdict += " (%d unit(s) undecided: anchors lost)" % v["undecided"]
    print("| %s | %s | %s | %s | %s | %s |" % (k, v["property"], meta["needs_to_manifest"].replace("|", "/")[:160], vu, cx, verdict))
