#!/usr/bin/env python3
"""Regenerate MANIFEST.json from spec/plan.py (PROPS + MANIFEST_TEXT)."""
import json, os, sys
ROOT = os.path.dirname(os.path.dirname(os.path.abspath(__file__)))
sys.path.insert(0, os.path.join(ROOT, "spec"))
sys.path.insert(0, os.path.join(ROOT, "engine"))
import plan

ALL = ["C%02d" % i for i in range(1, 21)]
checks = []
na = []
for pid in ALL:
    if pid in plan.PROPS and pid in plan.MANIFEST_TEXT:
        t = plan.MANIFEST_TEXT[pid]
        checks.append({
            "property_id": pid,
            "quick_cmd": "bin/check %s --tier quick" % pid,
            "thorough_cmd": "bin/check %s --tier thorough" % pid,
            "evidence_file": "/verif/evidence/%s.json" % pid,
            "replay_cmd_template": "bin/check --replay {path}",
            "engine": "verus-contracts",
            "level_claimed": {"category": t.get("category", "proof"), "text": t["text"], "design_ref": t.get("design_ref", "DESIGN.md section 9")},
            "level_note": t["note"],
            "technique": t.get("technique", "contract-based deductive verification (Verus/Z3) of the functions extracted from /repo on every run"),
        })
    else:
        na.append({"property_id": pid, "reason": plan.NOT_CLAIMED.get(pid, "not claimed yet: contract units for this property are still under construction (DESIGN.md section 9 describes the plan); no check is registered rather than a weaker technique being substituted")})
m = {
    "version": 1,
    "setup_cmd": "bin/setup",
    "hooks": {
        "guard": "bva_verif",
        "enable": "none needed: the checks read /repo's sources (rustc -Zunpretty=expanded) and never build /repo with a cfg flag",
        "baseline_off_cmd": "cd /repo && cargo test --workspace --no-fail-fast --offline",
        "source_commits": [],
        "add_only": True,
    },
    "engines": [
        {"name": "verus-contracts", "path": "/verif/engine", "serves_properties": [c["property_id"] for c in checks],
         "kind_free_text": "mechanical extraction of real functions from rustc's macro expansion of /repo + woven contracts (spec/units) + Verus 0.2026.09.13 (Z3); Kani 0.68 on the real crate for counterexamples/bounded stand-ins"},
    ],
    "checks": checks,
    "not_applicable": na,
    "notes": "Genuine defects found and repaired by `fix:` commits in /repo are listed in /verif/KNOWN_FINDINGS (fixed: lines). Exit status 2 + `UNDECIDED` lines mean the verifier could not decide (lost anchor, resource limit, unsupported construct) and is never an alarm.",
}
json.dump(m, open(os.path.join(ROOT, "MANIFEST.json"), "w"), indent=1)
print("wrote MANIFEST.json: %d checks, %d not claimed" % (len(checks), len(na)))
