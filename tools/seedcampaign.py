#!/usr/bin/env python3
"""Run the quick check of the property each seeded change breaks against that change and record which stage caught it.
   tools/seedcampaign.py [seed-dir-names...]     (default: every directory of /verif/seeded)
Developer tool: works on a scratch CLONE of /repo's HEAD (VERIF_REPO) with a scratch evidence directory, so that /repo and the
committed evidence are not touched; the clone and all outputs are removed at the end.  Equivalent to
  git -C /repo apply seeded/<id>/patch.diff; bin/check <PROP>; git -C /repo checkout -- .
Writes /verif/seeded/RESULTS.json (input of DESIGN.md section 14)."""
import json, os, re, shutil, subprocess, sys, tempfile, time
ROOT = os.path.dirname(os.path.dirname(os.path.abspath(__file__)))
SEEDED = os.path.join(ROOT, "seeded")

def main():
    names = sys.argv[1:] or sorted(d for d in os.listdir(SEEDED) if os.path.isdir(os.path.join(SEEDED, d)))
    work = tempfile.mkdtemp(prefix="bva-seedcampaign-")
    clone = os.path.join(work, "repo")
    subprocess.run(["git", "clone", "-q", "/repo", clone], check=True)
    # the clone must be /repo's working tree state (HEAD + nothing): refuse to run on a dirty /repo
    if subprocess.run(["git", "-C", "/repo", "status", "--porcelain"], stdout=subprocess.PIPE).stdout.strip():
        print("refusing: /repo has uncommitted changes"); return 2
    results = {}
    rp = os.path.join(SEEDED, "RESULTS.json")
    if os.path.exists(rp) and sys.argv[1:]:
        results = json.load(open(rp))
    try:
        for n in names:
            meta = json.load(open(os.path.join(SEEDED, n, "meta.json")))
            prop = meta["property"]
            patch = os.path.join(SEEDED, n, "patch.diff")
            if subprocess.run(["git", "-C", clone, "apply", patch]).returncode != 0:
                results[n] = {"property": prop, "error": "patch does not apply"}; continue
            ev = os.path.join(work, "ev_" + n)
            env = dict(os.environ, VERIF_REPO=clone, VERIF_EVIDENCE_DIR=ev, VERIF_CACHE=os.path.join(work, "cache"))
            t0 = time.time()
            p = subprocess.run([os.path.join(ROOT, "bin", "check"), prop], stdout=subprocess.PIPE, stderr=subprocess.DEVNULL, env=env)
            out = p.stdout.decode("utf-8", "replace")
            subprocess.run(["git", "-C", clone, "checkout", "--", "."], check=True)
            viol = [l for l in out.split("\n") if l.startswith("VIOLATION")]
            und = [l for l in out.split("\n") if l.startswith("UNDECIDED")]
            rec = {"property": prop, "rc": p.returncode, "seconds": round(time.time() - t0), "violation_lines": [v.replace(ev, "evidence") for v in viol],
                   "undecided": len(und), "verus_failed_units": [], "counterexample_harnesses": [], "no_failing_input_found": any(v.rstrip().endswith("no-failing-input-found") for v in viol)}
            for v in viol:
                m = re.search(r"replay=(\S+)", v)
                if m and os.path.exists(m.group(1)):
                    r = json.load(open(m.group(1)))
                    if r.get("failed_obligations"):
                        rec["verus_failed_units"].append(r.get("unit"))
                        rec.setdefault("failed_obligation_kinds", sorted({o["obligation"].rsplit(":", 1)[-1] for o in r["failed_obligations"]}))
                    cx = r.get("counterexample") or (r if r.get("harness") else None)
                    if cx and cx.get("harness"):
                        rec["counterexample_harnesses"].append(cx["harness"])
            try:
                e = json.load(open(os.path.join(ev, prop + ".json")))
                rec["dynamic_failures"] = e["coverage"].get("dynamic_failures", [])
            except Exception:
                pass
            rec["detected"] = p.returncode == 1 and bool(viol)
            results[n] = rec
            print(n, prop, "rc=%d" % p.returncode, "verus:", rec["verus_failed_units"], "cex:", rec["counterexample_harnesses"], "undecided:", len(und), flush=True)
            shutil.rmtree(ev, ignore_errors=True)
            json.dump(results, open(rp, "w"), indent=1, sort_keys=True)
    finally:
        shutil.rmtree(work, ignore_errors=True)
    return 0

if __name__ == "__main__":
    sys.exit(main())
