#!/usr/bin/env python3
"""tools/patchcheck.py <patch file> <PROP>...: run quick checks against /repo's HEAD + patch on a scratch clone (developer tool:
used for the behaviour-preserving refactorings of DESIGN 14, where the expected outcome is exit 0 or exit 2, never a VIOLATION)."""
import os, shutil, subprocess, sys, tempfile
ROOT = os.path.dirname(os.path.dirname(os.path.abspath(__file__)))
patch, props = sys.argv[1], sys.argv[2:]
work = tempfile.mkdtemp(prefix="bva-patchcheck-")
clone = os.path.join(work, "repo")
try:
    subprocess.run(["git", "clone", "-q", "/repo", clone], check=True)
    if subprocess.run(["git", "-C", clone, "apply", patch]).returncode != 0:
        print("patch does not apply"); sys.exit(2)
    for p in props:
        env = dict(os.environ, VERIF_REPO=clone, VERIF_EVIDENCE_DIR=os.path.join(work, "ev"), VERIF_CACHE=os.path.join(work, "cache"))
        r = subprocess.run([os.path.join(ROOT, "bin", "check"), p], stdout=subprocess.PIPE, stderr=subprocess.DEVNULL, env=env)
        out = r.stdout.decode("utf-8", "replace")
        lines = [l for l in out.split("\n") if l.startswith(("VIOLATION", "UNDECIDED", "KNOWN"))]
        print("%s rc=%d %s" % (p, r.returncode, out.strip().split("\n")[-1]))
        for l in lines[:4]:
            print("   ", l[:260])
        if r.returncode == 1:
            for l in [x for x in out.split("\n") if "failed obligation" in x][:3]:
                print("   ", l[:260])
finally:
    shutil.rmtree(work, ignore_errors=True)
